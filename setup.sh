#!/bin/bash
# offline setup: nothing is downloaded; the checks compile the sources from /repo on every run.
# This script only validates the environment models against the real thing (translator validation, DESIGN.md 2.3/2.5).
set -e
cd "$(dirname "$0")"
mkdir -p build evidence replays
for t in cbmc goto-cc goto-instrument gcc python3 z3 cvc5; do command -v $t >/dev/null || { echo "missing tool $t"; exit 1; }; done
python3 -c "import json; json.load(open('MANIFEST.json')); json.load(open('known_findings.json'))"
# 1. ctype tables of the running libc (C locale) must be the ones the CBMC model uses
gcc -o build/gen_ctype tools/gen_ctype.c && ./build/gen_ctype > build/ctype_tables.h
if ! cmp -s build/ctype_tables.h harness/gen/ctype_tables.h; then echo "ctype tables differ from the committed ones: regenerating"; cp build/ctype_tables.h harness/gen/ctype_tables.h; fi
# 2. AVX2 intrinsics model vs the hardware (skipped without AVX2)
if gcc -O1 -mavx2 -o build/shim_difftest tools/shim_difftest.c 2>/dev/null; then ./build/shim_difftest || { echo "AVX2 model disagrees with the hardware"; exit 1; }; else echo "shim_difftest: compiler cannot build AVX2 code, skipped"; fi
# 3. C07 oracle (bracket form) and the Hirschberg path contract against the real kernels with the real recursion: no alarm on any pair <= 4x4
R=${VK_REPO:-/repo}
gcc -O1 -w -DNOHAVE_AVX2 -I$R/lib/src -I$R/lib/include -Iharness/gen -o build/c07_native tools/c07_native.c $R/lib/src/aln_param.c $R/lib/src/aln_mem.c $R/lib/src/aln_setup.c \
    $R/lib/src/aln_controller.c $R/lib/src/aln_seqseq.c $R/lib/src/aln_seqprofile.c $R/lib/src/aln_profileprofile.c $R/lib/src/tldevel.c -lm
./build/c07_native 4 4 2>/dev/null | tail -1 || true
echo "setup ok"
