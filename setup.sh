#!/bin/bash
# offline setup: nothing to download; checks compile from /repo on every run.
set -e
cd "$(dirname "$0")"
mkdir -p build evidence replays
for t in cbmc goto-cc goto-instrument gcc python3 kissat z3; do command -v $t >/dev/null || { echo "missing tool $t"; exit 1; }; done
python3 -c "import json; json.load(open('MANIFEST.json')); json.load(open('known_findings.json'))"
echo "setup ok"
