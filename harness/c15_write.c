/* C15: written files are self-consistent and correctly labelled (real write_msa_fasta / write_msa_clu /
 * write_msa_msf of lib/src/msa_io.c, GCG checksums of lib/src/msa_misc.c), parsed by an independent reader
 * written from the format descriptions.
 * concrete: VK_FMT (1 fasta, 2 msf, 3 clustal), VK_NS rows, VK_ALN columns, name lengths VK_NL1..3
 * symbolic: every row character (letter of either case or '-'), every name character, biotype and msa->L
 */
#include "vk.h"
#include <ctype.h>
#include <stdlib.h>
#include "vk_io.h"
#include "msa_io.c"
#include "vk_msa.h"

#ifndef VK_NL3
#define VK_NL3 1
#endif
/* stand-in for alloc_line_buffer (1024 lines x malloc in the real one): same fields and invariants, VK_LB_LINES
 * lines; installed with goto-instrument --replace-calls (logged); resize_line_buffer must stay unreachable */
struct line_buffer *vk_alloc_line_buffer(int max_line_len)
{
        struct line_buffer *lb = malloc(sizeof(struct line_buffer));
        __CPROVER_assume(lb != NULL);
        lb->alloc_num_lines = VK_LB_LINES; lb->num_line = 0; lb->max_line_len = max_line_len;
        lb->lines = malloc(sizeof(struct out_line *) * VK_LB_LINES);
        __CPROVER_assume(lb->lines != NULL);
        for (int i = 0; i < VK_LB_LINES; i++) {
                lb->lines[i] = malloc(sizeof(struct out_line));
                __CPROVER_assume(lb->lines[i] != NULL);
                lb->lines[i]->block = 0; lb->lines[i]->seq_id = 0;
                lb->lines[i]->line = malloc(max_line_len);
                __CPROVER_assume(lb->lines[i]->line != NULL);
        }
        return lb;
}

static const int NL[3] = {VK_NL1, VK_NL2, VK_NL3};
#define NBLOCKS ((VK_ALN + 59) / 60)
#define MAXNL (VK_NL1 > VK_NL2 ? (VK_NL1 > VK_NL3 || VK_NS < 3 ? VK_NL1 : VK_NL3) : (VK_NL2 > VK_NL3 || VK_NS < 3 ? VK_NL2 : VK_NL3))

static int name_char_ok(unsigned char c) { return (c >= 'A' && c <= 'Z') || (c >= 'a' && c <= 'z') || (c >= '0' && c <= '9') || c == '_' || c == '.' || c == '|' || c == '-'; }

/* reference GCG checksum over the whole gapped row (GCG definition) */
static int ref_gcg(const char *row, int n)
{
        int chk = 0;
        for (int i = 0; i < VK_ALN; i++) if (i < n) {
                int c = (unsigned char)row[i];
                if (c >= 'a' && c <= 'z') c -= 32;
                chk = (chk + (i % 57 + 1) * c) % 10000;
        }
        return chk;
}

static int is_blank(int ln) { return vk_tape[ln].c[0] == 0 || (vk_tape[ln].c[0] == '\n' && vk_tape[ln].c[1] == 0); }

/* does tape line ln consist of name, at least one blank, chunk row[from..to) and nothing else? */
static int block_line_ok(int ln, const char *name, int nl, const char *row, int from, int to)
{
        const char *l = vk_tape[ln].c;
        int p = 0;
        for (int i = 0; i < nl; i++) { if (l[p] != name[i]) return 0; p++; }
        if (l[p] != ' ') return 0;
        for (int k = 0; k < VK_OUT_W; k++) if (l[p] == ' ') p++;
        for (int c = from; c < to; c++) { if (l[p] != row[c]) return 0; p++; }
        return l[p] == 0;
}

VK_MAIN()
{
        VK_INIT();
        int vb = 0;
        struct msa *m = vk_mk_msa(VK_NS, VK_ALN + 1);
        m->numseq = VK_NS; m->aligned = ALN_STATUS_FINAL; m->alnlen = VK_ALN;
        int biotype = vin.b[vb++] ? ALN_BIOTYPE_PROTEIN : ALN_BIOTYPE_DNA;
        int after_run = vin.b[vb++] & 1;   /* written after kalign_run (L = alphabet size) or straight after reading (L undefined) */
        m->biotype = biotype;
        m->L = after_run ? (biotype == ALN_BIOTYPE_PROTEIN ? ALPHA_ambigiousPROTEIN : ALPHA_defDNA) : (uint8_t)ALPHA_UNDEFINED;
        for (int s = 0; s < VK_NS; s++) {
                int nres = 0;
                for (int c = 0; c < VK_ALN; c++) {
                        unsigned char ch = vin.b[vb++];
#ifdef VK_WIN_LO
                        /* wide MSF instances: only columns VK_WIN_LO..VK_WIN_HI-1 are symbolic, the rest is a fixed backdrop */
                        if (c < VK_WIN_LO || c >= VK_WIN_HI) ch = ((c * 7 + s * 3) % 5 == 0) ? '-' : (unsigned char)("ACDEFGHIKLmnpqrstvwy"[(c + 3 * s) % 20]);
#endif
                        VK_ASSUME(vk_isalpha(ch) || ch == '-');
                        m->sequences[s]->seq[c] = (char)ch;
                        if (ch != '-') nres++;
                }
                m->sequences[s]->seq[VK_ALN] = 0;
                VK_ASSUME(nres >= 1);
                m->sequences[s]->len = nres;
                for (int k = 0; k < 3; k++) if (k < NL[s]) {
#ifdef VK_SYM_NAMES
                        unsigned char ch = vin.b[vb++]; VK_ASSUME(name_char_ok(ch));
#elif defined(VK_PREFIX_NAMES)
                        unsigned char ch = (unsigned char)("ABC"[k]);   /* every shorter name is a proper prefix of every longer one */
#else
                        unsigned char ch = (unsigned char)("_aQ.7||-Z"[3 * s + k]);   /* name characters concrete, lengths enumerated */
#endif
                        m->sequences[s]->name[k] = (char)ch;
                }
                m->sequences[s]->name[NL[s]] = 0;
        }
        vk_layout_fill(VK_FMT, VK_NS, VK_ALN, NL, MAXNL);
        int rc = kalign_write_msa(m, NULL, VK_FMT == 1 ? "fasta" : VK_FMT == 2 ? "msf" : "clu");
        VK_ASSERT(rc == OK, "C15: writing a final alignment succeeds");
#if VK_FMT == 2
        VK_ASSERT(!vk_trunc_hdr, "C15: an MSF header line that does not fit its buffer is rendered again into a larger one, never kept truncated");
#ifdef VK_TRUNC_DELTA
        VK_ASSERT(vk_msf_hdr_seen == ((VK_TRUNC_DELTA) >= 0 ? 2 : 1), "C15: the header is rendered a second time exactly when the first rendering did not fit");
        vk_msf_hdr_seen = 1;
#endif
#endif
        VK_ASSERT(!vk_tape_overflow, "model limit: output tape large enough");
        VK_ASSERT(vk_tape_col == 0, "C15: the file ends with a newline");
        int ln = 0;
#if VK_FMT == 1
        for (int s = 0; s < VK_NS; s++) {
                VK_ASSERT(vk_tape[ln].c[0] == '>' && strcmp(vk_tape[ln].c + 1, m->sequences[s]->name) == 0, "C15: FASTA record starts with >name");
                ln++;
                for (int b = 0; b < NBLOCKS; b++) {
                        int from = b * 60, to = from + 60 < VK_ALN ? from + 60 : VK_ALN;
                        VK_ASSERT((int)strlen(vk_tape[ln].c) == to - from, "C15: FASTA rows are wrapped at exactly 60 columns, last line non-empty");
                        for (int c = from; c < to; c++) VK_ASSERT(vk_tape[ln].c[c - from] == m->sequences[s]->seq[c], "C15: FASTA lines concatenate to the row");
                        ln++;
                }
        }
        VK_ASSERT(ln == vk_tape_n, "C15: nothing else in the FASTA file");
#else
#if VK_FMT == 3
        VK_ASSERT(strstr(vk_tape[0].c, "multiple sequence alignment") != NULL, "C15: Clustal file starts with its header line");
        ln = 1;
#else
        VK_ASSERT(strcmp(vk_tape[0].c, biotype == ALN_BIOTYPE_PROTEIN ? "!!AA_MULTIPLE_ALIGNMENT 1.0" : "!!NA_MULTIPLE_ALIGNMENT 1.0") == 0,
                  "C15: MSF type line names the right molecule type");
        VK_ASSERT(vk_msf_hdr_seen == 1, "C15: one MSF: line");
        VK_ASSERT(vk_msf_hdr.len == VK_ALN, "C15: MSF header declares the true alignment length");
        VK_ASSERT(vk_msf_hdr.type == (biotype == ALN_BIOTYPE_PROTEIN ? 'P' : 'N'), "C15: MSF header declares the right molecule type");
        int sum = 0;
        VK_ASSERT(vk_names_n == VK_NS, "C15: one Name: line per row");
        for (int s = 0; s < VK_NS; s++) {
                int want = ref_gcg(m->sequences[s]->seq, VK_ALN);
                sum = (sum + want) % 10000;
                VK_ASSERT(vk_names[s].name == m->sequences[s]->name && vk_names[s].prec >= NL[s] && vk_names[s].width >= NL[s], "C15: Name: lines carry the full names in row order");
                VK_ASSERT(vk_names[s].len == VK_ALN, "C15: Name: line declares the true alignment length");
                VK_ASSERT(vk_names[s].check == want, "C15: Name: line carries the GCG checksum of the whole gapped row");
        }
        VK_ASSERT(vk_msf_hdr.check == sum, "C15: MSF header carries the sum of the row checksums");
        /* header layout: type line, blank, MSF line, blank, names, blank, //, blank */
        VK_ASSERT(strstr(vk_tape[2].c, "MSF:") != NULL, "C15: MSF: line present");
        for (int s = 0; s < VK_NS; s++) VK_ASSERT(strstr(vk_tape[4 + s].c, "Name:") != NULL && strstr(vk_tape[4 + s].c, "Len:") != NULL, "C15: Name: lines present");
        VK_ASSERT(strcmp(vk_tape[5 + VK_NS].c, "//") == 0, "C15: header ends with //");
        ln = 6 + VK_NS;
#endif
        for (int b = 0; b < NBLOCKS; b++) {
                int from = b * 60, to = from + 60 < VK_ALN ? from + 60 : VK_ALN;
                for (int k = 0; k < 4; k++) if (ln < vk_tape_n && is_blank(ln)) ln++;   /* blank separator lines */
                for (int s = 0; s < VK_NS; s++) {
                        VK_ASSERT(ln < vk_tape_n, "C15: every sequence appears in every block");
                        VK_ASSERT(block_line_ok(ln, m->sequences[s]->name, NL[s], m->sequences[s]->seq, from, to),
                                  "C15: block line = name, padding, at most 60 columns of that row, in row order");
                        ln++;
                }
                VK_ASSERT(ln < vk_tape_n && is_blank(ln), "C15: a separator follows each block");
        }
        for (int k = 0; k < 4; k++) if (ln < vk_tape_n && is_blank(ln)) ln++;
        VK_ASSERT(ln == vk_tape_n, "C15: nothing after the last block");
#endif
        VK_END();
}
