/* C04-O4: records split over several inputs: merge_msa (real lib/src/msa_op.c) appends the records of a second msa to
 * the first.  Both objects come from the allocation model (capacity VK_MSA_CAP); VK_ND and VK_NSRC records with symbolic
 * lengths, residues, gap vectors and histograms.  detect_alphabet is replaced by a stand-in (its arithmetic is C13).
 * assert: the result holds the records of the first input followed by those of the second, each with its own residues,
 * gaps and name; the histogram is the sum; the source slots are emptied (no record is owned twice); inputs of different
 * kinds are rejected; the member lists are rebuilt for the new count; releasing both objects afterwards leaves nothing
 * allocated (memory-leak check). */
#include "vk.h"
#include "tldevel.h"
#include <stdlib.h>
#include "msa_struct.h"
#include "msa_alloc.h"
#include "msa_op.h"
static int vk_kind;
int vk_detect_alphabet(struct msa *msa) { if (vk_kind == ALN_BIOTYPE_DNA || vk_kind == ALN_BIOTYPE_PROTEIN) msa->biotype = (uint8_t)vk_kind; return OK; }

static void fill(struct msa *m, int n, int *vb)
{
        m->numseq = n;
        for (int s = 0; s < n; s++) {
                struct msa_seq *q = m->sequences[s];
                int l = vin.b[(*vb)++] & 3; q->len = l;
                for (int k = 0; k < 3; k++) q->seq[k] = (char)vin.b[(*vb)++];
                for (int k = 0; k <= 3; k++) q->gaps[k] = vin.b[(*vb)++] & 3;
                q->name[0] = (char)vin.b[(*vb)++]; q->name[1] = 0;
        }
}

VK_MAIN()
{
        VK_INIT();
        int vb = 0;
        vk_kind = vin.i[0];
        struct msa *d = NULL, *s = NULL;
        VK_ASSERT(alloc_msa(&d, 0) == OK && alloc_msa(&s, 0) == OK, "allocation");
        fill(d, VK_ND, &vb); fill(s, VK_NSRC, &vb);
        d->biotype = (uint8_t)(vin.b[vb++] & 3); s->biotype = (uint8_t)(vin.b[vb++] & 3);
        d->aligned = vin.i[1]; s->aligned = vin.i[2];
        for (int c = 0; c < 128; c++) { d->letter_freq[c] = 0; s->letter_freq[c] = 0; }
        d->letter_freq['A'] = vin.b[vb++]; s->letter_freq['A'] = vin.b[vb++]; d->letter_freq['-'] = vin.b[vb++]; s->letter_freq['x'] = vin.b[vb++];
        int fa = d->letter_freq['A'] + s->letter_freq['A'], fm = d->letter_freq['-'], fx = s->letter_freq['x'];
        struct msa_seq *dp[VK_ND + 1], *sp[VK_NSRC + 1];
        for (int i = 0; i < VK_ND; i++) dp[i] = d->sequences[i];
        for (int i = 0; i < VK_NSRC; i++) sp[i] = s->sequences[i];
        int bd = d->biotype, bs = s->biotype;
        struct msa *res = d;
        int rc = merge_msa(&res, s);
        if (bd != ALN_BIOTYPE_UNDEF && bd != bs) {
                VK_ASSERT(rc == FAIL, "C04/C05: inputs of different kinds are rejected");
        } else {
                VK_ASSERT(rc == OK && res == d, "C04: merging succeeds");
                VK_ASSERT(d->numseq == VK_ND + VK_NSRC, "C04: every record of every input is kept");
                for (int i = 0; i < VK_ND; i++) VK_ASSERT(d->sequences[i] == dp[i], "C04: records of the first input stay first, in order");
                for (int i = 0; i < VK_NSRC; i++) { VK_ASSERT(d->sequences[VK_ND + i] == sp[i], "C04: records of the next input follow, in order"); VK_ASSERT(s->sequences[i] == NULL, "C16: a record has one owner"); }
                VK_ASSERT(d->letter_freq['A'] == fa && d->letter_freq['-'] == fm && d->letter_freq['x'] == fx, "C13: histograms add up");
                VK_ASSERT(d->num_profiles == 2 * (VK_ND + VK_NSRC) - 1 && d->nsip != NULL && d->sip != NULL, "member lists rebuilt for the new count");
                for (int i = 0; i < VK_ND + VK_NSRC; i++) VK_ASSERT(d->nsip[i] == 1 && d->sip[i][0] == i, "every record is its own group");
        }
        /* C16: as kalign_read_input does - the emptied source object is released, later the merged one; with
         * --memory-leak-check nothing the two objects owned may remain (placeholder records included) */
        kalign_free_msa(s);
        kalign_free_msa(d);
        VK_END();
}
