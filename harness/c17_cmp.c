/* C17: the alignment-comparison score (real lib/src/msa_cmp.c, msa_check.c; qsort/ctype models).
 * VK_MODE 1 (O1): compare_pair on two symbolic alignments (widths VK_WA, VK_WB) of the same two sequences
 *   (VK_L1, VK_L2 residues): the six counters equal the definition (per residue: partner index or gap).
 * VK_MODE 2 (O2): kalign_msa_compare on two FINAL msa objects with VK_NS rows, widths VK_WA (reference) and VK_WB
 *   (test), rows in arbitrary (symbolic) order in both, distinct symbolic 1-byte names: score equals
 *   100*identical/reference relations computed from the definition, lies in [0,100].
 * VK_MODE 3 (O2b): test = reference with VK_K all-gap columns inserted at symbolic places and rows permuted: score == 100.
 * symbolic: which columns of each row hold residues (bit masks), gap characters, residue letters, row orders, names.
 */
#include "vk.h"
#include "tldevel.h"
#include <ctype.h>
#include "vk_msa.h"
#include "msa_cmp.c"

#ifndef VK_NS
#define VK_NS 2
#endif
#define WMAX (VK_WA > VK_WB ? VK_WA : VK_WB)
#if VK_MODE == 3
#undef WMAX
#define WMAX (VK_WA + VK_K)
#endif

static int LEN[4] = {VK_L1, VK_L2,
#ifdef VK_L3
        VK_L3,
#else
        0,
#endif
        0};

static int popcount(unsigned m, int w) { int n = 0; for (int c = 0; c < w; c++) n += (m >> c) & 1; return n; }

/* partner[k] of residue k of row x (mask mx) with respect to row y (mask my): index of y's residue in the same column or -1 */
static void partners(unsigned mx, unsigned my, int w, int *out)
{
        int px = -1, py = -1;
        for (int c = 0; c < WMAX; c++) {
                if (c < w) {
                        int rx = (mx >> c) & 1, ry = (my >> c) & 1;
                        if (ry) py++;
                        if (rx) { px++; out[px] = ry ? py : -1; }
                }
        }
}

struct refstat { uint64_t ref_al, ref_gap, id_al, id_gap, t_al, t_gap; };

static void ref_pair(unsigned a1, unsigned a2, unsigned b1, unsigned b2, int l1, int l2, struct refstat *st)
{
        int pa1[WMAX + 1], pa2[WMAX + 1], pb1[WMAX + 1], pb2[WMAX + 1];
        partners(a1, a2, VK_WA, pa1); partners(a2, a1, VK_WA, pa2);
        partners(b1, b2, WMAX, pb1); partners(b2, b1, WMAX, pb2);
        for (int k = 0; k < WMAX; k++) {
                if (k < l1) {
                        if (pa1[k] != -1) { st->ref_al++; if (pa1[k] == pb1[k]) st->id_al++; } else { st->ref_gap++; if (pb1[k] == -1) st->id_gap++; }
                        if (pb1[k] != -1) st->t_al++; else st->t_gap++;
                }
                if (k < l2) {
                        if (pa2[k] != -1) { st->ref_al++; if (pa2[k] == pb2[k]) st->id_al++; } else { st->ref_gap++; if (pb2[k] == -1) st->id_gap++; }
                        if (pb2[k] != -1) st->t_al++; else st->t_gap++;
                }
        }
}

static int vbi = 0;
static void fill_row(char *dst, unsigned mask, int w)
{
        for (int c = 0; c < WMAX; c++) {
                if (c < w) {
                        unsigned char ch = vin.b[vbi++];
                        if ((mask >> c) & 1) { VK_ASSUME(vk_isalpha(ch)); }
                        else { VK_ASSUME(ch != 0 && !vk_isalpha(ch) && ch < 128); }
                        dst[c] = (char)ch;
                }
        }
        dst[w] = 0;
}

VK_MAIN()
{
        VK_INIT();
#if VK_MODE == 1
        unsigned a1 = vin.i[0], a2 = vin.i[1], b1 = vin.i[2], b2 = vin.i[3];
        VK_ASSUME(a1 < (1u << VK_WA) && a2 < (1u << VK_WA) && b1 < (1u << VK_WB) && b2 < (1u << VK_WB));
        VK_ASSUME(popcount(a1, VK_WA) == VK_L1 && popcount(b1, VK_WB) == VK_L1 && popcount(a2, VK_WA) == VK_L2 && popcount(b2, VK_WB) == VK_L2);
        char s1a[WMAX + 1], s2a[WMAX + 1], s1b[WMAX + 1], s2b[WMAX + 1];
        fill_row(s1a, a1, VK_WA); fill_row(s2a, a2, VK_WA); fill_row(s1b, b1, VK_WB); fill_row(s2b, b2, VK_WB);
        struct cmp_stats st = {0, 0, 0, 0, 0, 0};
        struct refstat rs = {0, 0, 0, 0, 0, 0};
        int rc = compare_pair(s1a, s2a, s1b, s2b, VK_WA, VK_WB, &st);
        VK_ASSERT(rc == OK, "compare_pair succeeds");
        {
                int pa1[WMAX + 1], pa2[WMAX + 1], pb1[WMAX + 1], pb2[WMAX + 1];
                partners(a1, a2, VK_WA, pa1); partners(a2, a1, VK_WA, pa2);
                partners(b1, b2, VK_WB, pb1); partners(b2, b1, VK_WB, pb2);
                for (int k = 0; k < WMAX; k++) {
                        if (k < VK_L1) {
                                if (pa1[k] != -1) { rs.ref_al++; if (pa1[k] == pb1[k]) rs.id_al++; } else { rs.ref_gap++; if (pb1[k] == -1) rs.id_gap++; }
                                if (pb1[k] != -1) rs.t_al++; else rs.t_gap++;
                        }
                        if (k < VK_L2) {
                                if (pa2[k] != -1) { rs.ref_al++; if (pa2[k] == pb2[k]) rs.id_al++; } else { rs.ref_gap++; if (pb2[k] == -1) rs.id_gap++; }
                                if (pb2[k] != -1) rs.t_al++; else rs.t_gap++;
                        }
                }
        }
        VK_ASSERT(st.ref_total_aligned_pairs == rs.ref_al && st.ref_total_gap_pairs == rs.ref_gap, "C17: reference relations counted as defined");
        VK_ASSERT(st.test_total_aligned_pairs == rs.t_al && st.test_total_gap_pairs == rs.t_gap, "C17: test relations counted as defined");
        VK_ASSERT(st.identical_aligned == rs.id_al && st.identical_gaps == rs.id_gap, "C17: reproduced relations counted as defined");
#else
        /* canonical data: row s has LEN[s] residues; name order = index order */
        unsigned rm[VK_NS], tm[VK_NS];
        unsigned char nm[VK_NS];
        for (int s = 0; s < VK_NS; s++) {
                rm[s] = vin.i[s];
                VK_ASSUME(rm[s] < (1u << VK_WA) && popcount(rm[s], VK_WA) == LEN[s]);
                nm[s] = vin.b[vbi++];
                VK_ASSUME(nm[s] > 32 && nm[s] < 127);
                if (s) VK_ASSUME(nm[s] > nm[s - 1]);
        }
#if VK_MODE == 2
        const int WT = VK_WB;
        for (int s = 0; s < VK_NS; s++) { tm[s] = vin.i[VK_NS + s]; VK_ASSUME(tm[s] < (1u << VK_WB) && popcount(tm[s], VK_WB) == LEN[s]); }
#else
        /* test = reference with VK_K all-gap columns inserted: keep[] = columns of the test that come from the reference */
        const int WT = VK_WA + VK_K;
        unsigned keep = vin.i[VK_NS];
        VK_ASSUME(keep < (1u << WT) && popcount(keep, WT) == VK_WA);
        for (int s = 0; s < VK_NS; s++) {
                unsigned m = 0; int src = 0;
                for (int c = 0; c < WT; c++) if ((keep >> c) & 1) { if ((rm[s] >> src) & 1) m |= 1u << c; src++; }
                tm[s] = m;
        }
#endif
        /* symbolic row orders */
        int pr[VK_NS], pt[VK_NS];
        for (int s = 0; s < VK_NS; s++) { pr[s] = vin.b[vbi++]; pt[s] = vin.b[vbi++]; VK_ASSUME(pr[s] < VK_NS && pt[s] < VK_NS); }
        for (int s = 0; s < VK_NS; s++) for (int u = 0; u < s; u++) VK_ASSUME(pr[s] != pr[u] && pt[s] != pt[u]);
        struct msa *r = vk_mk_msa(VK_NS, VK_WA + 1), *t = vk_mk_msa(VK_NS, WT + 1);
        r->numseq = t->numseq = VK_NS;
        r->aligned = t->aligned = ALN_STATUS_FINAL;
        r->alnlen = VK_WA; t->alnlen = WT;
        for (int k = 0; k < VK_NS; k++) {
                int s = pr[k], u = pt[k];
                fill_row(r->sequences[k]->seq, rm[s], VK_WA); r->sequences[k]->len = LEN[s];
                r->sequences[k]->name[0] = (char)nm[s]; r->sequences[k]->name[1] = 0;
                fill_row(t->sequences[k]->seq, tm[u], WT); t->sequences[k]->len = LEN[u];
                t->sequences[k]->name[0] = (char)nm[u]; t->sequences[k]->name[1] = 0;
        }
        float score = -1.0f;
        int rc = kalign_msa_compare(r, t, &score);
        VK_ASSERT(rc == OK, "C17: comparison of two alignments of the same uniquely named sequences succeeds");
        struct refstat rs = {0, 0, 0, 0, 0, 0};
        for (int i = 0; i < VK_NS; i++) for (int j = i + 1; j < VK_NS; j++) {
#if VK_MODE == 2
                ref_pair(rm[i], rm[j], tm[i], tm[j], LEN[i], LEN[j], &rs);
#else
                ref_pair(rm[i], rm[j], tm[i], tm[j], LEN[i], LEN[j], &rs);
#endif
        }
        double a = (double)(rs.id_al + rs.id_gap), b = (double)(rs.ref_al + rs.ref_gap);
        float want = 100.0 * a / b;
        VK_ASSERT(score == want, "C17: score = 100 * reproduced relations / reference relations");
        VK_ASSERT(score >= 0.0f && score <= 100.0f, "C17: score lies between 0 and 100");
#if VK_MODE == 3
        VK_ASSERT(score == 100.0f, "C17: identical alignments (up to row order and all-gap columns) score 100");
#endif
#endif
        VK_END();
}
