/* C16-O3 / C05: the keep-the-best loop of the bisecting k-means driver (real bisecting_kmeans of lib/src/bisectingKmeans.c,
 * included for the static functions) on VK_N >= 100 samples.  The numeric k-means split (split2), the distance estimation
 * and the UPGMA of the two halves are replaced by stand-ins (goto-instrument --replace-calls, logged): split2 re-uses the
 * result object it is handed or allocates one with the REAL alloc_kmeans_result, puts half of the samples on each side and
 * gives it an ARBITRARY finite score - so every order of "better / not better" over the up to 40 restarts is explored.
 * assert (with --memory-leak-check): the call succeeds, returns a tree, and after the tree is released nothing the driver
 * allocated remains (the superseded best results, the spare results, the sample lists).
 * VK_ROUNDS (optional): runs that would enter round VK_ROUNDS+1 of restarts are cut (assume(0) in the stand-in, on a
 * concrete call counter), i.e. only runs whose keep-the-best loop stops after <= VK_ROUNDS rounds are decided.  The full
 * instance decides the unchanged code in seconds; on code that leaks a result per improving restart symex of all 10
 * rounds does not finish, the cut instance does (seeded C16_r4m4). */
#include "vk.h"
#include "tldevel.h"
#include <stdlib.h>
#include <float.h>
#include "bisectingKmeans.c"

static int nf = 0;
int vk_split2(const float * const *dm, const int *samples, const int num_anchors, const int num_samples, const int seed_pick, struct kmeans_result **ret)
{
        (void)dm; (void)samples; (void)num_anchors; (void)seed_pick;
        struct kmeans_result *r = *ret;
#ifdef VK_ROUNDS
        if (nf >= 4 * VK_ROUNDS) __CPROVER_assume(0);
#endif
        if (!r) { r = alloc_kmeans_result(num_samples); __CPROVER_assume(r != NULL); }
        r->nl = num_samples / 2; r->nr = num_samples - r->nl;
        float sc = vin.f[nf < VK_NF ? nf : 0]; nf++;
        VK_ASSUME(sc >= 0.0f && sc < 1e30f);
        r->score = sc;
        *ret = r;
        return OK;
}
static float *vk_dummy_row[1];
float **vk_d_estimation(struct msa *msa, int *samples, int num_samples, int pair) { (void)msa; (void)samples; (void)num_samples; (void)pair; return vk_dummy_row; }
struct node *vk_upgma(float **dm, int *samples, int numseq) { (void)dm; (void)samples; (void)numseq; return alloc_node(); }
void vk_free_2d(float ***a) { *a = NULL; }

VK_MAIN()
{
        VK_INIT();
        static struct msa m;
        m.numseq = VK_N; m.quiet = 1;
        int *samples = malloc(sizeof(int) * VK_N);
        __CPROVER_assume(samples != NULL);
        for (int i = 0; i < VK_N; i++) samples[i] = i;
        struct node *root = NULL;
        int rc = bisecting_kmeans(&m, &root, NULL, samples, VK_N);
        VK_ASSERT(rc == OK && root != NULL && root->left != NULL && root->right != NULL, "C05: the k-means driver returns a tree over both halves");
        VK_ASSERT(nf >= 4 && nf <= 40 && nf % 4 == 0, "restarts come in rounds of four, at most 40");
        free(root->left); free(root->right); free(root);
        VK_END();
}
