/* native replay: same worklist as c07_push.c, installed by symbol interposition is not possible for intra-TU calls,
 * so the native build compiles aln_controller.c with -Daln_runner_serial... see vk/core.py: native builds of C07
 * instances use the real recursion instead (the worklist variables exist so that the harness links) */
#include "tldevel.h"
#include "aln_struct.h"
struct vk_item { int starta, enda, startb, endb; struct states f0, b0; };
struct vk_item vk_wl[64];
int vk_wl_n = 0, vk_wl_overflow = 0;
