/* C01-O4/O5: from gap vectors to rows and back to the caller's order.
 * VK_MODE 1 (O4): finalise_alignment + make_linear_sequence + kalign_msa_to_arr (real lib/src/msa_op.c) on VK_NS
 *   sequences whose gap vectors satisfy the row invariant for VK_ALN columns; residue bytes, lengths and gap
 *   vectors symbolic.  Assert: each row has VK_ALN characters + NUL, deleting '-' gives back exactly the input bytes,
 *   '-' runs are the gap vector, the array API returns the same rows.
 * VK_MODE 2 (O5): kalign_essential_input_check + msa_sort_len_name + msa_sort_rank (real msa_check.c, msa_sort.c,
 *   qsort model) on VK_NS sequences with symbolic lengths (0 allowed) and symbolic names: the survivors are exactly
 *   the non-empty sequences, in input order, each still with its own name and residues.
 */
#include "vk.h"
#include "tldevel.h"
#include "vk_msa.h"
#include "msa_op.h"
#include "msa_check.h"
#include "msa_sort.h"

#ifndef VK_LMAX
#define VK_LMAX 3
#endif

VK_MAIN()
{
        VK_INIT();
        int vb = 0;
#if VK_MODE == 1
        struct msa *m = vk_mk_msa(VK_NS, VK_LMAX + 1);
        m->numseq = VK_NS;
        m->aligned = ALN_STATUS_ALIGNED;
        unsigned char res[VK_NS][VK_LMAX];
        int gaps[VK_NS][VK_LMAX + 1];
        int len[VK_NS];
        for (int s = 0; s < VK_NS; s++) {
                int l = vin.b[vb++];
                int sum = 0;
                if (s == 0) {
                        /* row 0 fixes the allocation size of every row (finalise_alignment): its shape is concrete
                         * (VK_SHAPE0 = bit mask of its residue columns, enumerated by the driver), contents symbolic */
                        l = 0;
                        int run = 0;
                        for (int k = 0; k <= VK_LMAX; k++) { gaps[0][k] = 0; }
                        for (int c = 0; c < VK_ALN; c++) {
                                if ((VK_SHAPE0 >> c) & 1) { gaps[0][l] = run; run = 0; l++; } else run++;
                        }
                        gaps[0][l] = run;
                        for (int k = 0; k <= VK_LMAX; k++) { m->sequences[0]->gaps[k] = gaps[0][k]; sum += gaps[0][k]; vb++; }
                } else {
                        VK_ASSUME(l >= 1 && l <= VK_LMAX && l <= VK_ALN);
                        for (int k = 0; k <= VK_LMAX; k++) {
                                int g = vin.b[vb++];
                                VK_ASSUME(g <= VK_ALN);
                                if (k > l) g = 0;
                                gaps[s][k] = g; m->sequences[s]->gaps[k] = g; sum += g;
                        }
                }
                len[s] = l;
                m->sequences[s]->len = l;
                VK_ASSUME(l + sum == VK_ALN);
                for (int k = 0; k < VK_LMAX; k++) {
                        unsigned char c = vin.b[vb++];
                        VK_ASSUME(c != 0 && c != '-');
                        res[s][k] = c;
                        if (k < l) m->sequences[s]->seq[k] = (char)c;
                }
                m->sequences[s]->seq[l] = 0;
        }
        int rc = finalise_alignment(m);
        VK_ASSERT(rc == OK, "finalise_alignment succeeds");
        VK_ASSERT(m->alnlen == VK_ALN && m->aligned == ALN_STATUS_FINAL, "C01: alignment length recorded");
        char **arr = NULL; int alen = -1;
        rc = kalign_msa_to_arr(m, &arr, &alen);
        VK_ASSERT(rc == OK && alen == VK_ALN, "C01: array API reports the alignment length");
        for (int s = 0; s < VK_NS; s++) {
                const char *row = m->sequences[s]->seq;
                int r = 0, run = 0;
                for (int c = 0; c < VK_ALN; c++) {
                        VK_ASSERT(row[c] != 0, "C01: row has the full alignment length");
                        VK_ASSERT(arr[s][c] == row[c], "C01: array API returns the same row");
                        if (row[c] == '-') {
                                run++;
                        } else {
                                VK_ASSERT(r < len[s] && (unsigned char)row[c] == res[s][r], "C01: deleting gaps gives back the input residues (same letters, case, order)");
                                VK_ASSERT(run == gaps[s][r], "C01: gaps sit where the gap vector says");
                                r++; run = 0;
                        }
                }
                VK_ASSERT(r == len[s] && run == gaps[s][len[s]], "C01: every residue present; trailing gaps as in the gap vector");
                VK_ASSERT(row[VK_ALN] == 0 && arr[s][VK_ALN] == 0, "C01: row is terminated at the alignment length");
                VK_ASSERT(m->sequences[s]->len == len[s], "C01: residue count unchanged");
        }
#else
        struct msa *m = vk_mk_msa(VK_NS, 2);
        m->numseq = VK_NS;
        struct msa_seq *orig[VK_NS];
        int len[VK_NS];
        int nonempty = 0;
        for (int s = 0; s < VK_NS; s++) {
                orig[s] = m->sequences[s];
                int l = vin.b[vb++];
                VK_ASSUME(l <= 3);
                len[s] = l; m->sequences[s]->len = l;
                if (l) nonempty++;
                m->sequences[s]->name[0] = (char)vin.b[vb++];
                m->sequences[s]->name[1] = (char)vin.b[vb++];
                m->sequences[s]->name[2] = 0;
                m->sequences[s]->rank = vin.i[s];   /* whatever was there before */
        }
        int rc = kalign_essential_input_check(m, 0);
        VK_ASSERT((rc == OK) == (nonempty >= 2), "C05: accepted iff at least two non-empty sequences");
        if (rc == OK) {
                VK_ASSERT(m->numseq == nonempty, "C01: one row per non-empty input sequence");
                VK_ASSERT(msa_sort_len_name(m) == OK, "sort ok");
                for (int s = 0; s + 1 < VK_NS; s++) if (s + 1 < m->numseq)
                        VK_ASSERT(m->sequences[s]->len >= m->sequences[s + 1]->len, "C03: canonical order is by decreasing length");
                VK_ASSERT(msa_sort_rank(m) == OK, "sort ok");
                int k = 0;
                for (int s = 0; s < VK_NS; s++) {
                        if (len[s]) {
                                VK_ASSERT(m->sequences[k] == orig[s], "C01: rows come back in input order, each the caller's own sequence object");
                                VK_ASSERT(m->sequences[k]->len == len[s], "C01: length untouched");
                                k++;
                        }
                }
        }
#endif
        VK_END();
}
