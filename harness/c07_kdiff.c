/* C07-O2: the profile kernels are the sequence-sequence kernel on groups of identical copies ("kernel differential").
 * One Hirschberg step (the REAL aln_runner_serial: forward pass, backward pass, meet-in-the-middle, aln_continue) on a
 * CONCRETE rectangle with CONCRETE boundary-state patterns is run twice on the same symbolic residues:
 *   (1) sequence-sequence kernels on (a, b);
 *   (2) sequence-profile (VK_KERNEL 2: profile of VK_KA copies of a vs b) or profile-profile kernels (VK_KERNEL 3: VK_KA
 *       copies of a vs VK_KB copies of b), the profiles built by the real make_profile_n / update_n / set_gap_penalties_n
 *       exactly as do_align builds them.
 * Every score of (2) is the score of (1) times F = KA*KB; F is a power of two, so the scaling is exact in binary floating
 * point and the -FLT_MAX sentinel absorbs every finite addend in both runs.  Hence, for ALL residues:
 *   the forward and backward state rows agree (scaled), the two sub-problems handed down (rectangles and boundary-state
 *   patterns) are identical, and the path entries written are identical.
 * The sequence-sequence kernels themselves are decided against the full-matrix oracle by the decision split (c07_split.c);
 * this harness transfers that result to the profile kernels rectangle by rectangle (every rectangle / pattern combination
 * the recursion can produce is its own instance).  The recursion is cut by the worklist stub (c07_push.c). */
#include "vk.h"
#include "tldevel.h"
#include <stdlib.h>
#include <float.h>
#include "kalign/kalign.h"
#include "msa_struct.h"
#include "aln_param.h"
#include "aln_struct.h"
#include "aln_setup.h"
#include "aln_controller.h"
#include "aln_seqseq.h"
#include "aln_seqprofile.h"
#include "aln_profileprofile.h"

struct vk_item { int starta, enda, startb, endb; struct states f0, b0; };
#ifndef VK_WL_MAX
#define VK_WL_MAX 8
#endif
extern struct vk_item vk_wl[VK_WL_MAX];
extern int vk_wl_n, vk_wl_overflow;
#ifndef VK_NLET
#define VK_NLET 4
#endif
static const uint8_t PROTLET[6] = {0, 4, 9, 17, 20, 22};   /* A C I W B X */
#ifndef VK_KB
#define VK_KB 1
#endif
#define F_SCALE ((float)(VK_KA * VK_KB))

static struct states pat(int p)
{
        struct states s;
        s.a = (p & 1) ? 0.0f : -FLT_MAX; s.ga = (p & 2) ? 0.0f : -FLT_MAX; s.gb = (p & 4) ? 0.0f : -FLT_MAX;
        return s;
}
static int same_scaled(float x1, float x2) { return (x1 == -FLT_MAX && x2 == -FLT_MAX) || (x1 != -FLT_MAX && x2 == F_SCALE * x1); }
static int st_same(struct states x, struct states y) { return x.a == y.a && x.ga == y.ga && x.gb == y.gb; }

static float *copies_profile(struct aln_param *ap, const uint8_t *s, int len, int k)
{
        int dpath[VK_LA + VK_LB + 3];
        float *p1 = NULL, *p2 = NULL, *acc = NULL;
        VK_ASSERT(make_profile_n(ap, s, len, &acc) == OK, "make_profile_n");
        dpath[0] = len; for (int i = 1; i <= len; i++) dpath[i] = 0; dpath[len + 1] = 3;
        for (int c = 1; c < k; c++) {
                VK_ASSERT(make_profile_n(ap, s, len, &p2) == OK, "make_profile_n");
                p1 = malloc(sizeof(float) * 64 * (len + 2)); __CPROVER_assume(p1 != NULL);
                update_n(acc, p2, p1, ap, dpath, c, 1);
                free(acc); free(p2); p2 = NULL; acc = p1;
        }
        return acc;
}

/* Profile of k identical copies of s, ASSEMBLED column by column: the real code (make_profile_n + update_n along the
 * diagonal) is run on each one-letter sequence - concrete, so CBMC folds it to constant columns - and column i of the
 * profile is the template column of residue s[i-1] (a table read with a symbolic index, no floating-point arithmetic on
 * symbolic values).  Justified by column locality of make_profile_n / update_n on a diagonal path: column i depends on
 * residue i alone; the instances `kdiff_profeq_*` (-DVK_PROFEQ) show assembled == real for all residues. */
static float *assembled_profile(struct aln_param *ap, const uint8_t *s, const uint8_t *idx, int len, int k)
{
        static float T[VK_NLET][3 * 64];
        for (int l = 0; l < VK_NLET; l++) {
                uint8_t one[2]; one[0] = VK_BIOTYPE == ALN_BIOTYPE_PROTEIN ? PROTLET[l] : (uint8_t)l; one[1] = 0;
                float *t = copies_profile(ap, one, 1, k);
                for (int e = 0; e < 3 * 64; e++) T[l][e] = t[e];
                free(t);
        }
        (void)s;
        float *p = malloc(sizeof(float) * 64 * (len + 2)); __CPROVER_assume(p != NULL);
        for (int e = 0; e < 64; e++) { p[e] = T[0][e]; p[64 * (len + 1) + e] = T[0][128 + e]; }
        for (int i = 1; i <= len; i++) for (int e = 0; e < 64; e++) p[64 * i + e] = T[idx[i - 1]][64 + e];
        return p;
}

static void mk_mem(struct aln_mem *m, struct aln_param *ap)
{
        m->size = VK_LB + 2; m->alloc_path_len = VK_LA + VK_LB + 2;
        m->f = malloc(sizeof(struct states) * m->size); m->b = malloc(sizeof(struct states) * m->size);
        m->path = malloc(sizeof(int) * m->alloc_path_len); m->tmp_path = malloc(sizeof(int) * m->alloc_path_len);
        __CPROVER_assume(m->f && m->b && m->path && m->tmp_path);
        m->ap = ap; m->mode = ALN_MODE_FULL; m->len_a = VK_LA; m->len_b = VK_LB; m->run_parallel = 0; m->score = 0.0f;
        m->seq1 = NULL; m->seq2 = NULL; m->prof1 = NULL; m->prof2 = NULL; m->sip = 0;
}

VK_MAIN()
{
        VK_INIT();
        struct aln_param *ap = NULL;
        int rc = aln_param_init(&ap, VK_BIOTYPE, 1, VK_TYPE, -1.0f, -1.0f, -1.0f);
        VK_ASSUME(rc == OK);
        static float flat[23 * 23];
        static float *rows[23];
        for (int i = 0; i < 23; i++) { rows[i] = &flat[23 * i]; for (int j = 0; j < 23; j++) flat[23 * i + j] = ap->subm[i][j]; }
        struct aln_param apc = *ap;
        apc.subm = rows;

        uint8_t a[VK_LA + 1], b[VK_LB + 1], ia[VK_LA + 1], ib[VK_LB + 1];
        for (int i = 0; i < VK_LA; i++) { uint8_t c = vin.b[i]; VK_ASSUME(c < VK_NLET); ia[i] = c; a[i] = VK_BIOTYPE == ALN_BIOTYPE_PROTEIN ? PROTLET[c] : c; }
        for (int j = 0; j < VK_LB; j++) { uint8_t c = vin.b[VK_LA + j]; VK_ASSUME(c < VK_NLET); ib[j] = c; b[j] = VK_BIOTYPE == ALN_BIOTYPE_PROTEIN ? PROTLET[c] : c; }

#ifdef VK_PROFEQ
        /* column locality: the assembled profile is the real one, entry by entry, for all residues */
        {
                float *pr = copies_profile(&apc, a, VK_LA, VK_KA), *pa = assembled_profile(&apc, a, ia, VK_LA, VK_KA);
                for (int e = 0; e < 64 * (VK_LA + 2); e++) VK_ASSERT(pr[e] == pa[e], "C07: profile assembled from one-letter templates = profile built by make_profile_n / update_n");
                VK_END();
                return 0;
        }
#endif
#ifdef VK_REAL_PROFILE
#define MKPROF(s, idx, len, k) copies_profile(&apc, s, len, k)
#else
#define MKPROF(s, idx, len, k) assembled_profile(&apc, s, idx, len, k)
#endif
        float *profa = MKPROF(a, ia, VK_LA, VK_KA), *profb = NULL;
#if VK_KERNEL == 3
        profb = MKPROF(b, ib, VK_LB, VK_KB);
        set_gap_penalties_n(profa, VK_LA, VK_KB);     /* as do_align: each profile is scaled by the size of the other group */
        set_gap_penalties_n(profb, VK_LB, VK_KA);
#else
        set_gap_penalties_n(profa, VK_LA, 1);         /* as do_align: the other operand is one sequence */
#endif
        struct aln_mem m1s, m2s; struct aln_mem *m1 = &m1s, *m2 = &m2s;
        mk_mem(m1, &apc); mk_mem(m2, &apc);
        m1->seq1 = a; m1->seq2 = b;
#if VK_KERNEL == 2
        m2->prof1 = profa; m2->seq2 = b; m2->sip = VK_KA;
#else
        m2->prof1 = profa; m2->prof2 = profb;
#endif
        for (int i = 0; i < VK_LA + VK_LB + 2; i++) { m1->path[i] = -7; m2->path[i] = -7; }
        /* the rectangle and boundary patterns of this instance */
        m1->starta = VK_SA; m1->enda = VK_EA; m1->startb = VK_SB; m1->endb = VK_EB; m1->f[0] = pat(VK_FP); m1->b[0] = pat(VK_BP);
        m2->starta = VK_SA; m2->enda = VK_EA; m2->startb = VK_SB; m2->endb = VK_EB; m2->f[0] = pat(VK_FP); m2->b[0] = pat(VK_BP);
        /* phase 1: the two half passes, called exactly as aln_runner_serial calls them (rows [starta,mid) forward, [mid,enda)
         * backward); their state rows are compared here because aln_continue re-uses f[0] / b[0] for the sub-problems */
        {
                int mid = ((VK_EA - VK_SA) / 2) + VK_SA;
                m1->enda = mid; m1->starta_2 = mid; m1->enda_2 = VK_EA;
                m2->enda = mid; m2->starta_2 = mid; m2->enda_2 = VK_EA;
                aln_seqseq_foward(m1); aln_seqseq_backward(m1);
#if VK_KERNEL == 2
                aln_seqprofile_foward(m2); aln_seqprofile_backward(m2);
#else
                aln_profileprofile_foward(m2); aln_profileprofile_backward(m2);
#endif
                for (int j = 0; j <= VK_LB; j++) if (j >= VK_SB && j <= VK_EB) {
                        VK_ASSERT(same_scaled(m1->f[j].a, m2->f[j].a) && same_scaled(m1->f[j].ga, m2->f[j].ga) && same_scaled(m1->f[j].gb, m2->f[j].gb),
                                  "C07: forward state row of the profile kernel = sequence-sequence row times the group sizes");
                        VK_ASSERT(same_scaled(m1->b[j].a, m2->b[j].a) && same_scaled(m1->b[j].ga, m2->b[j].ga) && same_scaled(m1->b[j].gb, m2->b[j].gb),
                                  "C07: backward state row of the profile kernel = sequence-sequence row times the group sizes");
                }
        }
        /* phase 2: the whole step through the real controller (meet-in-the-middle + aln_continue) */
        m1->starta = VK_SA; m1->enda = VK_EA; m1->startb = VK_SB; m1->endb = VK_EB; m1->f[0] = pat(VK_FP); m1->b[0] = pat(VK_BP);
        m2->starta = VK_SA; m2->enda = VK_EA; m2->startb = VK_SB; m2->endb = VK_EB; m2->f[0] = pat(VK_FP); m2->b[0] = pat(VK_BP);
        vk_wl_n = 0;
        aln_runner_serial(m1);
        int n1 = vk_wl_n;
        struct vk_item A1 = vk_wl[0], B1 = vk_wl[1];
        aln_runner_serial(m2);
        int n2 = vk_wl_n - n1;
        /* rectangle / pattern combinations the recursion cannot produce (e.g. a single row entered and left in the gap state)
         * have no finite meeting point: aln_continue then hands down nothing - the two kernel families must still agree */
        VK_ASSERT(!vk_wl_overflow && n1 == n2 && (n1 == 2 || n1 == 0), "C07: both kernel families hand down the same number of sub-problems (two, or none when no finite meeting point exists)");
        if (n1 != 2) { VK_END(); }
        struct vk_item A2 = vk_wl[n1], B2 = vk_wl[n1 + 1];
        VK_ASSERT(A1.starta == A2.starta && A1.enda == A2.enda && A1.startb == A2.startb && A1.endb == A2.endb && st_same(A1.f0, A2.f0) && st_same(A1.b0, A2.b0),
                  "C07: the profile kernel splits the rectangle exactly as the sequence-sequence kernel does (first sub-problem)");
        VK_ASSERT(B1.starta == B2.starta && B1.enda == B2.enda && B1.startb == B2.startb && B1.endb == B2.endb && st_same(B1.f0, B2.f0) && st_same(B1.b0, B2.b0),
                  "C07: the profile kernel splits the rectangle exactly as the sequence-sequence kernel does (second sub-problem)");
        for (int i = 0; i < VK_LA + VK_LB + 2; i++) VK_ASSERT(m1->path[i] == m2->path[i], "C07: same path entries written at the split row");
        VK_END();
}
