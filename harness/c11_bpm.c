/* C11: bit-parallel distance kernels (real lib/src/bpm.c) vs the textbook semi-global DP.
 *  -DMODE=1 : bpm_block(t,p,VK_TN,VK_PM) == ref(t,p,VK_TN,VK_PM)
 *  -DMODE=2 : bpm(t,p,VK_TN,VK_PM)       == bpm_block(t,p,VK_TN,VK_PM)         (VK_PM <= 63)
 *  -DMODE=3 : bpm_256(t,p,VK_TN,VK_PM)   == bpm_block(t,p,VK_TN,VK_PM)         (VK_PM <= 255; AVX2 intrinsics shim; HAVE_AVX2)
 *  -DMODE=4 : calc_distance(a,b,la,lb) hands the longer sequence to the kernel as text
 *  -DMODE=5 : bpm_block == ref on a mostly concrete backdrop: only VK_NSYM positions of text and pattern
 *             around column/row EDGE are symbolic (block-boundary instances)
 * VK_TN = text length, VK_PM = pattern length (concrete); contents symbolic over the 13 classes.
 */
#include "vk.h"
#include "tldevel.h"
#include "bpm.h"
#ifndef VK_TN
#define VK_TN 3
#endif
#ifndef VK_PM
#define VK_PM 2
#endif
#ifndef VK_NSYMB
#define VK_NSYMB 13
#endif

float calc_distance(uint8_t *seq_a, uint8_t *seq_b, int len_a, int len_b);

/* reference: min over substrings of t of the edit distance to p[0..m) (first row 0, first column i) */
static int ref_dist(const uint8_t *t, const uint8_t *p, int n, int m)
{
        int prev[VK_PM + 2], cur[VK_PM + 2];
        if (m > 1024) m = 1024;
        for (int i = 0; i <= VK_PM; i++) prev[i] = i;
        int best = m;
        for (int j = 1; j <= VK_TN; j++) {
                if (j <= n) {
                        cur[0] = 0;
                        for (int i = 1; i <= VK_PM; i++) {
                                if (i <= m) {
                                        int c = prev[i - 1] + (t[j - 1] != p[i - 1]);
                                        if (prev[i] + 1 < c) c = prev[i] + 1;
                                        if (cur[i - 1] + 1 < c) c = cur[i - 1] + 1;
                                        cur[i] = c;
                                }
                        }
                        if (cur[m] < best) best = cur[m];
                        for (int i = 0; i <= VK_PM; i++) prev[i] = cur[i];
                }
        }
        return best;
}

VK_MAIN()
{
        VK_INIT();
        uint8_t t[VK_TN + 1], p[VK_PM + 1];
#if VK_MODE == 5
        /* concrete backdrop, symbolic window */
        for (int i = 0; i < VK_TN; i++) t[i] = (uint8_t)((i * VK_BD_A + VK_BD_B) % VK_BD_MOD);
        for (int i = 0; i < VK_PM; i++) p[i] = (uint8_t)((i * VK_BD_C + VK_BD_D) % VK_BD_MOD);
        for (int k = 0; k < VK_NSYM; k++) {
                int ti = VK_EDGE_T - VK_NSYM / 2 + k, pi = VK_EDGE_P - VK_NSYM / 2 + k;
                VK_ASSUME(vin.b[k] < VK_NSYMB && vin.b[VK_NSYM + k] < VK_NSYMB);
                if (ti >= 0 && ti < VK_TN) t[ti] = vin.b[k];
                if (pi >= 0 && pi < VK_PM) p[pi] = vin.b[VK_NSYM + k];
        }
#elif defined(VK_BACKDROP)
#ifndef VK_PW1
#define VK_PW1 VK_W1
#define VK_PW2 VK_W2
#endif
#ifndef VK_BD_B2
#define VK_BD_B2 VK_BD_B
#endif
        /* long instances: a constant backdrop with symbolic windows at both ends of text and pattern
         * (positions < VK_W1 and >= len - VK_W2); the window contents range over all 13 classes */
        {
                int k = 0;
                for (int i = 0; i < VK_TN; i++) {
                        if (i < VK_W1 || i >= VK_TN - VK_W2) { VK_ASSUME(vin.b[k] < VK_NSYMB); t[i] = vin.b[k]; k++; }
                        else t[i] = (uint8_t)((i * VK_BD_A + VK_BD_B) % VK_BD_MOD);
                }
                for (int i = 0; i < VK_PM; i++) {
                        if (i < VK_PW1 || i >= VK_PM - VK_PW2) { VK_ASSUME(vin.b[k] < VK_NSYMB); p[i] = vin.b[k]; k++; }
                        else p[i] = (uint8_t)((i * VK_BD_A + VK_BD_B2) % VK_BD_MOD);   /* VK_BD_B2 != VK_BD_B: text and pattern far apart */
                }
        }
#else
        for (int i = 0; i < VK_TN; i++) { VK_ASSUME(vin.b[i] < VK_NSYMB); t[i] = vin.b[i]; }
        for (int i = 0; i < VK_PM; i++) { VK_ASSUME(vin.b[VK_TN + i] < VK_NSYMB); p[i] = vin.b[VK_TN + i]; }
#endif
        t[VK_TN] = 0; p[VK_PM] = 0;
#if VK_MODE == 1 || VK_MODE == 5
        int r = bpm_block(t, p, VK_TN, VK_PM);
        int e = ref_dist(t, p, VK_TN, VK_PM);
        VK_ASSERT(r == e, "C11: bpm_block equals the minimum edit distance of the pattern to a substring of the text");
#elif VK_MODE == 2
        int r = bpm(t, p, VK_TN, VK_PM);
        int e = bpm_block(t, p, VK_TN, VK_PM);
        VK_ASSERT(r == e, "C11: 64-bit single-word variant equals the blocked routine");
#elif VK_MODE == 3
        set_broadcast_mask();
        int r = bpm_256(t, p, VK_TN, VK_PM);
        int e = bpm_block(t, p, VK_TN, VK_PM);
        VK_ASSERT(r == e, "C11: 256-bit single-word variant equals the blocked routine");
#elif VK_MODE == 6
        /* the pairwise distance is the blocked routine's value with the longer sequence as text - for lengths around the
         * 64-symbol word boundary (a dispatch to a single-word kernel must not change the value) */
        float d1 = calc_distance(t, p, VK_TN, VK_PM);
        float d2 = calc_distance(p, t, VK_PM, VK_TN);
        int e = bpm_block(t, p, VK_TN, VK_PM);
#if VK_TN != VK_PM
        VK_ASSERT(d1 == (float)e && d2 == (float)e, "C11: the pairwise distance equals the blocked routine on (longer, shorter)");
#else
        /* equal lengths: either sequence may serve as the text (the measure is not symmetric); what the dispatch must
         * preserve is the blocked routine's value for the order calc_distance chose (second argument as text) */
        int e2 = bpm_block(p, t, VK_PM, VK_TN);
        VK_ASSERT(d1 == (float)e2 && d2 == (float)e, "C11: equal lengths - the pairwise distance equals the blocked routine for the argument order used");
#endif
#elif VK_MODE == 4
        /* a has length VK_TN, b has length VK_PM (VK_TN >= VK_PM) - both argument orders */
        float d1 = calc_distance(t, p, VK_TN, VK_PM);
        float d2 = calc_distance(p, t, VK_PM, VK_TN);
        int e = ref_dist(t, p, VK_TN, VK_PM);
#if VK_TN != VK_PM
        VK_ASSERT(d1 == (float)e && d2 == (float)e, "C11: the pairwise distance passes the longer sequence as text");
#else
        VK_ASSERT(d1 == (float)e || d2 == (float)e, "C11: equal lengths - one of the orders is the reference");
        VK_ASSERT(d1 >= 0.0f && d1 <= (float)VK_PM && d2 >= 0.0f && d2 <= (float)VK_PM, "C11: distance within 0..m");
#endif
#endif
        VK_END();
}
