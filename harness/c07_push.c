/* C07 worklist: the recursive calls inside aln_continue (lib/src/aln_controller.c) are redirected here by
 * `goto-instrument --replace-calls aln_runner_serial:vstub_push` (applied to the compiled aln_controller.c only, logged).
 * Instead of recursing, the sub-problem (rectangle + the two boundary states aln_continue just set) is recorded; the
 * harness pops the items and calls the REAL aln_runner_serial once per item.  Sound because every field a sub-problem
 * reads is re-assigned by aln_continue before each call and the kernels re-initialise their state rows from f[0]/b[0];
 * validated natively against the real recursion (tools/c07_native.c uses the real aln_runner). */
#include "tldevel.h"
#include "aln_struct.h"
#ifndef VK_WL_MAX
#define VK_WL_MAX 8
#endif
struct vk_item { int starta, enda, startb, endb; struct states f0, b0; };
struct vk_item vk_wl[VK_WL_MAX];
int vk_wl_n = 0, vk_wl_overflow = 0;
int vstub_push(struct aln_mem *m)
{
        if (vk_wl_n >= VK_WL_MAX) { vk_wl_overflow = 1; return OK; }
        vk_wl[vk_wl_n].starta = m->starta; vk_wl[vk_wl_n].enda = m->enda;
        vk_wl[vk_wl_n].startb = m->startb; vk_wl[vk_wl_n].endb = m->endb;
        vk_wl[vk_wl_n].f0 = m->f[0]; vk_wl[vk_wl_n].b0 = m->b[0];
        vk_wl_n++;
        return OK;
}
