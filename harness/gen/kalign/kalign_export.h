/* stand-in for the cmake-generated export header (visibility attributes only) */
#ifndef KALIGN_EXPORT_H
#define KALIGN_EXPORT_H
#define KALIGN_EXPORT
#define KALIGN_NO_EXPORT
#define KALIGN_DEPRECATED
#define KALIGN_DEPRECATED_EXPORT
#define KALIGN_DEPRECATED_NO_EXPORT
#endif
