/* vk_io.h - in-memory I/O for the reader/writer harnesses.  Include AFTER the system headers and BEFORE
 * #include "msa_io.c".  Output: fprintf/fopen/fclose write to a line tape (vk_tape), snprintf renders the
 * fixed text and the %s/%c arguments and RECORDS integer arguments (digit rendering is libc's job, the values
 * handed to printf are what C15 checks).  Under -DVK_NATIVE the same macros are active, so the native replay
 * exercises the identical harness logic with the real sources. */
#ifndef VK_IO_H
#define VK_IO_H
#include <stdarg.h>
#include <stdio.h>
#include <string.h>
#include <time.h>
#ifndef VK_OUT_LINES
#define VK_OUT_LINES 32
#endif
#ifndef VK_OUT_W
#define VK_OUT_W 80
#endif
/* array of structs, NOT char[LINES][W]: CBMC 6.11 mis-propagates constants read through a pointer to a row of a
 * two-dimensional char array (concrete reproducer in DESIGN.md section 9) */
struct vk_line { char c[VK_OUT_W]; };
static struct vk_line vk_tape[VK_OUT_LINES];
static int vk_tape_n = 0, vk_tape_col = 0, vk_tape_overflow = 0;
static int vk_opened = 0, vk_closed = 0;

/* Layout oracle: the harness fills vk_expect_len[] with the exact length of every output line of the format being
 * written (all sizes are concrete).  A "%s\n" write becomes ONE tape line: exactly that many bytes are copied and the
 * line is terminated at a CONCRETE position; the source is asserted to end there too and to contain no earlier NUL, so
 * a writer that deviates from the layout is reported, never silently modelled.  -2 marks the writers' block separator
 * ("\n" + "\n": two line breaks), stored as a tape line starting with '\n'. */
static int vk_expect_len[VK_OUT_LINES];
static void vk_line_raw(const char *s, int prefix)
{
        if (vk_tape_n >= VK_OUT_LINES || vk_tape_col != 0) { vk_tape_overflow = 1; return; }
        int p = 0, want = vk_expect_len[vk_tape_n];
        if (want == -2) {
                __CPROVER_assert(s[0] == '\n' && s[1] == 0, "C15: block separator where the layout says");
                vk_tape[vk_tape_n].c[0] = '\n'; vk_tape[vk_tape_n].c[1] = 0; vk_tape_n++;
                return;
        }
        if (prefix >= 0) vk_tape[vk_tape_n].c[p++] = (char)prefix;
        for (int i = 0; i < VK_OUT_W - 1; i++) {
                if (p < want) {
                        __CPROVER_assert(s[i] != 0, "C15: output line is as long as the layout says");
                        vk_tape[vk_tape_n].c[p++] = s[i];
                }
        }
        __CPROVER_assert(p == want && s[want - (prefix >= 0 ? 1 : 0)] == 0, "C15: output line ends where the layout says");
        vk_tape[vk_tape_n].c[p] = 0;
        vk_tape_n++;
}
/* layout of the three formats (nls = name lengths, maxnl = longest name, 60-column blocks) */
static void vk_layout_fill(int fmt, int ns, int aln, const int *nls, int maxnl)
{
        int nblocks = (aln + 59) / 60, t = 0;
        if (fmt == 1) {
                for (int s = 0; s < ns; s++) {
                        vk_expect_len[t++] = 1 + nls[s];
                        t += nblocks;   /* chunk lines are written character by character (%c), not through this oracle */
                }
                return;
        }
        if (fmt == 3) { vk_expect_len[t++] = 38; vk_expect_len[t++] = 0; }
        else {
                vk_expect_len[t++] = 27; vk_expect_len[t++] = 0; vk_expect_len[t++] = 41; vk_expect_len[t++] = 0;
                for (int s = 0; s < ns; s++) vk_expect_len[t++] = 7 + maxnl + 32;
                vk_expect_len[t++] = 0; vk_expect_len[t++] = 2; vk_expect_len[t++] = 0;
        }
        for (int b = 0; b < nblocks; b++) {
                int chunk = (b + 1) * 60 <= aln ? 60 : aln - b * 60;
                for (int s = 0; s < ns; s++) vk_expect_len[t++] = maxnl + 5 + chunk;
                vk_expect_len[t++] = -2;
        }
}
static void vk_putc(char c)
{
        if (vk_tape_n >= VK_OUT_LINES) { vk_tape_overflow = 1; return; }
        if (c == '\n') { vk_tape[vk_tape_n].c[vk_tape_col] = 0; vk_tape_n++; vk_tape_col = 0; return; }
        if (vk_tape_col >= VK_OUT_W - 1) { vk_tape_overflow = 1; return; }
        vk_tape[vk_tape_n].c[vk_tape_col++] = c;
}

/* formats used by the writers: ">%s\n"  "%s\n"  "%c"  "\n".  Dispatched without varargs (CBMC's variadic
 * machinery costs thousands of steps per call): the macro below selects by argument count and argument type. */
static int vk_fp_str(FILE *f, const char *fmt, const char *s)
{
        (void)f;
        if (fmt[0] == '>' && fmt[1] == '%' && fmt[2] == 's') vk_line_raw(s, '>');
        else if (fmt[0] == '%' && fmt[1] == 's' && fmt[2] == '\n') vk_line_raw(s, -1);
        else __CPROVER_assert(0, "model limit: fprintf format not modelled");
        return 1;
}
static int vk_fp_chr(FILE *f, const char *fmt, int c)
{
        (void)f;
        if (fmt[0] == '%' && fmt[1] == 'c' && fmt[2] == 0) {
                /* no branching on the (symbolic) character: a newline printed through %c is outside the model */
                __CPROVER_assert((char)c != '\n', "model limit: %c never prints a newline");
                if (vk_tape_n >= VK_OUT_LINES || vk_tape_col >= VK_OUT_W - 1) vk_tape_overflow = 1;
                else vk_tape[vk_tape_n].c[vk_tape_col++] = (char)c;
        }
        else __CPROVER_assert(0, "model limit: fprintf format not modelled");
        return 1;
}
static int vk_fp_lit(FILE *f, const char *fmt)
{
        (void)f;
        if (fmt[0] == '\n' && fmt[1] == 0) vk_putc('\n');
        else __CPROVER_assert(0, "model limit: fprintf format not modelled");
        return 1;
}
#define VK_FP3(f, fmt, x) _Generic((x), char *: vk_fp_str, const char *: vk_fp_str, default: vk_fp_chr)(f, fmt, x)
#define VK_FP2(f, fmt) vk_fp_lit(f, fmt)
#define VK_FP_SEL(_1, _2, _3, NAME, ...) NAME
#define vk_fprintf(...) VK_FP_SEL(__VA_ARGS__, VK_FP3, VK_FP2, 0)(__VA_ARGS__)
static FILE *vk_fopen(const char *p, const char *m) { (void)p; (void)m; vk_opened++; return stdout; }
static int vk_fclose(FILE *f) { (void)f; vk_closed++; return 0; }

/* recorded snprintf calls of the MSF header */
struct vk_msfline { int len; char type; int check; };
static struct vk_msfline vk_msf_hdr; static int vk_msf_hdr_seen = 0;
static int vk_trunc_hdr = 0;   /* the last rendering of the MSF: line did not fit the buffer it was given */
struct vk_nameline { const char *name; int width, prec, len, check; };
#ifndef VK_MAXROWS
#define VK_MAXROWS 4
#endif
static struct vk_nameline vk_names[VK_MAXROWS]; static int vk_names_n = 0;
static int vk_cat(char *dst, int size, int pos, const char *s, int max)
{
        for (int i = 0; i < max && s[i]; i++) { if (pos < size - 1) dst[pos] = s[i]; pos++; }
        return pos;
}
static int vk_snprintf(char *dst, size_t size, const char *fmt, ...)
{
        va_list ap;
        int pos = 0;
        va_start(ap, fmt);
        if (fmt[0] == ' ' && fmt[1] == 'N' && fmt[2] == 'a') {
                /* " Name: %-*.*s  Len:  %5d  Check: %4d  Weight: %.2f" */
                int w = va_arg(ap, int), p = va_arg(ap, int); const char *name = va_arg(ap, const char *);
                int len = va_arg(ap, int), chk = va_arg(ap, int);
                if (vk_names_n < VK_MAXROWS) { vk_names[vk_names_n].name = name; vk_names[vk_names_n].width = w; vk_names[vk_names_n].prec = p;
                        vk_names[vk_names_n].len = len; vk_names[vk_names_n].check = chk; }
                vk_names_n++;
                pos = vk_cat(dst, (int)size, pos, " Name: ", 8);
                int ended = 0;
                for (int n = 0; n < w; n++) {   /* %-*.*s with width == precision: exactly w characters */
                        char ch = ' ';
                        if (!ended && n < p) { if (name[n]) ch = name[n]; else ended = 1; }
                        if (pos < (int)size - 1) dst[pos] = ch;
                        pos++;
                }
                pos = vk_cat(dst, (int)size, pos, "  Len: #  Check: #  Weight: 1.00", 40);
        } else if (fmt[0] == ' ' && fmt[1] == '%' && fmt[2] == 's') {
                /* " %s  MSF: %d  Type: %c  %s  Check: %d  .." */
                const char *fn = va_arg(ap, const char *); int len = va_arg(ap, int); int ty = va_arg(ap, int);
                const char *date = va_arg(ap, const char *); int chk = va_arg(ap, int);
                (void)date;
                vk_msf_hdr.len = len; vk_msf_hdr.type = (char)ty; vk_msf_hdr.check = chk; vk_msf_hdr_seen++;
                pos = vk_cat(dst, (int)size, pos, " ", 2);
                pos = vk_cat(dst, (int)size, pos, fn, 16);
                pos = vk_cat(dst, (int)size, pos, "  MSF: #  Type: ", 20);
                if (pos < (int)size - 1) dst[pos] = (char)ty; pos++;
                pos = vk_cat(dst, (int)size, pos, "  D  Check: #  ..", 20);
#ifdef VK_TRUNC_DELTA
                /* the real line is longer than the model's (file name, date, digits): instances with VK_TRUNC_DELTA pretend the
                 * text needs size + VK_TRUNC_DELTA characters on the FIRST rendering (snprintf's return value = needed length);
                 * a writer that accepts a return value >= size keeps a truncated line.  A second rendering (after the writer
                 * enlarged the buffer) needs the same length. */
                {
                        static int vk_forced = -1;
                        if (vk_forced < 0) vk_forced = (int)size + (VK_TRUNC_DELTA);
                        vk_trunc_hdr = (vk_forced >= (int)size);
                        va_end(ap);
                        if (size > 0) dst[pos < (int)size - 1 ? pos : (int)size - 1] = 0;
                        return vk_forced;
                }
#endif
        } else if (fmt[0] == '%' && fmt[1] == 's' && fmt[2] == 0) {
                const char *s = va_arg(ap, const char *);
                pos = vk_cat(dst, (int)size, pos, s, 300);
        } else if (fmt[0] == 'K' && fmt[1] == 'a') {
                /* "Kalign (%s) multiple sequence alignment" */
                pos = vk_cat(dst, (int)size, pos, "Kalign (V) multiple sequence alignment", 64);
        } else {
                /* literal formats without conversions: "!!AA_MULTIPLE_ALIGNMENT 1.0", "//", ... */
                for (int i = 0; i < 40 && fmt[i]; i++) __CPROVER_assert(fmt[i] != '%', "model limit: snprintf format not modelled");
                pos = vk_cat(dst, (int)size, pos, fmt, 40);
        }
        va_end(ap);
        if (size > 0) dst[pos < (int)size - 1 ? pos : (int)size - 1] = 0;
        return pos;
}
static time_t vk_time(time_t *t) { (void)t; return (time_t)1; }
static struct tm *vk_localtime_r(const time_t *t, struct tm *r) { (void)t; return r; }
static size_t vk_strftime(char *s, size_t max, const char *fmt, const struct tm *tm) { (void)fmt; (void)tm; if (max > 1) { s[0] = 'D'; s[1] = 0; } return 1; }

#define fprintf vk_fprintf
#define snprintf vk_snprintf
#define fopen vk_fopen
#define fclose vk_fclose
#define time vk_time
#define localtime_r vk_localtime_r
#define strftime vk_strftime
#endif
