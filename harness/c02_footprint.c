/* C02-O2: footprints of the two halves of a Hirschberg step.  The forward and the backward pass run as two concurrent
 * tasks on one aln_mem; determinacy needs the forward pass to touch nothing but m->f and the backward pass nothing but
 * m->b (both only read the sequences / profiles / parameters).  Real kernels (lib/src/aln_seqseq.c, aln_seqprofile.c),
 * concrete rectangle, symbolic residues; the OTHER half's state array and the path arrays are invalid pointers, so any
 * access to them is a pointer-check failure.  VK_HALF 1 = forward (m->b, m->path invalid), 2 = backward (m->f invalid).
 * VK_KERNEL 1 = sequence-sequence, 2 = sequence-profile (profile built by the real make_profile_n).
 * Also asserted: the pass leaves the rectangle, the lengths and the boundary row s[0] of its own array unchanged
 * (the controller re-reads them afterwards).
 */
#include "vk.h"
#include "tldevel.h"
#include <stdlib.h>
#include <float.h>
#include "aln_param.h"
#include "aln_struct.h"
#include "aln_setup.h"
#include "aln_seqseq.h"
#include "aln_seqprofile.h"

VK_MAIN()
{
        VK_INIT();
        static float flat[23 * 23]; static float *rows[23];
        for (int i = 0; i < 23; i++) { rows[i] = &flat[23 * i]; for (int j = 0; j < 23; j++) { float v = vin.f[(i * 23 + j) % 8]; VK_ASSUME(v >= -100.0f && v <= 100.0f); flat[23 * i + j] = v; } }
        struct aln_param ap; ap.subm = rows; ap.gpo = 8.0f; ap.gpe = 6.0f; ap.tgpe = vin.b[15] & 1 ? 0.0f : 8.0f; ap.nthreads = 2; ap.score = 0.0f;
        uint8_t a[VK_LA + 1], b[VK_LB + 1];
        for (int i = 0; i < VK_LA; i++) { VK_ASSUME(vin.b[i] < 5); a[i] = vin.b[i]; }
        for (int j = 0; j < VK_LB; j++) { VK_ASSUME(vin.b[VK_LA + j] < 5); b[j] = vin.b[VK_LA + j]; }
        struct aln_mem mm; struct aln_mem *m = &mm;
        struct states *own = malloc(sizeof(struct states) * (VK_LB + 2));
        __CPROVER_assume(own != NULL);
        m->f = VK_HALF == 1 ? own : NULL; m->b = VK_HALF == 2 ? own : NULL;
        m->path = NULL; m->tmp_path = NULL; m->size = VK_LB + 2; m->alloc_path_len = 0;
        m->ap = &ap; m->mode = ALN_MODE_FULL; m->len_a = VK_LA; m->len_b = VK_LB; m->run_parallel = 1; m->sip = 1; m->score = 0.0f;
#if VK_KERNEL == 1
        m->seq1 = a; m->seq2 = b; m->prof1 = NULL; m->prof2 = NULL;
#else
        float *prof = NULL;
        VK_ASSERT(make_profile_n(&ap, a, VK_LA, &prof) == OK, "make_profile_n");
        set_gap_penalties_n(prof, VK_LA, 1);
        m->seq1 = NULL; m->seq2 = b; m->prof1 = prof; m->prof2 = NULL;
#endif
        /* one of the rectangles the controller can hand down: rows [VK_SA, VK_EA), columns [VK_SB, VK_EB] */
        m->starta = VK_SA; m->enda = VK_MID; m->starta_2 = VK_MID; m->enda_2 = VK_EA; m->startb = VK_SB; m->endb = VK_EB;
        own[0].a = 0.0f; own[0].ga = -FLT_MAX; own[0].gb = -FLT_MAX;
        struct aln_mem before = *m;
        int rc;
#if VK_KERNEL == 1
        rc = VK_HALF == 1 ? aln_seqseq_foward(m) : aln_seqseq_backward(m);
#else
        rc = VK_HALF == 1 ? aln_seqprofile_foward(m) : aln_seqprofile_backward(m);
#endif
        VK_ASSERT(rc == OK, "pass returns OK");
        VK_ASSERT(m->starta == before.starta && m->enda == before.enda && m->starta_2 == before.starta_2 && m->enda_2 == before.enda_2 && m->startb == before.startb && m->endb == before.endb &&
                  m->len_a == before.len_a && m->len_b == before.len_b && m->f == before.f && m->b == before.b && m->seq1 == before.seq1 && m->seq2 == before.seq2 && m->prof1 == before.prof1,
                  "C02: a half pass changes nothing in the shared aln_mem header");
        VK_END();
}
