/* vk_path.h - the contract between the DP kernels (C07 asserts it on what they return) and the path
 * completion / weaving code (C01/C10 assume it):
 *   path[i], i=1..la: -1 (residue i of a is opposite a gap) or the 1-based partner in b;
 *   partners strictly increasing; at least one aligned pair; and no a-only column adjacent to a b-only
 *   column (the three-state DP has no direct gap<->gap move), i.e. around every unpaired residue the
 *   neighbouring partners are consecutive (0 and lb+1 stand for the two ends). */
#ifndef VK_PATH_H
#define VK_PATH_H
static int vk_path_valid(const int *path, int la, int lb, int lamax)
{
        int ok = 1, prev = 0, npaired = 0, pending_unpaired = 0;
        for (int i = 1; i <= lamax; i++) {
                if (i <= la) {
                        int v = path[i];
                        if (v == -1) {
                                pending_unpaired = 1;
                        } else {
                                if (v <= prev || v > lb) ok = 0;
                                if (pending_unpaired && v != prev + 1) ok = 0;
                                pending_unpaired = 0;
                                prev = v;
                                npaired++;
                        }
                }
        }
        if (pending_unpaired && prev != lb) ok = 0;
        if (npaired == 0) ok = 0;
        return ok;
}
#endif
