/* upgma (real lib/src/bisectingKmeans.c) on a symbolic distance matrix.
 * VK_MODE 1 (C03-O3): the tree is a function of the matrix and the sample list: two runs on equal matrices (fresh copies,
 *            different addresses) give the same merge sequence; the first join is the first strict minimum in (i,j) scan order.
 * VK_MODE 2 (C12-L2): the sequences in VK_CMASK are copies of one sequence (pairwise distance d <= 1, identical distances
 *            r_w >= 1 + d/2 to every other sequence): they form a clade of the guide tree.
 * VK_MODE 3 (C08-O3): all entries equal: the result is a full binary tree over all leaves (each leaf exactly once).
 * symbolic: the upper triangle of the matrix (finite floats >= 0), mirrored.
 */
#include "vk.h"
#include "tldevel.h"
#include <stdlib.h>
#include "bisectingKmeans.c"

#define NN VK_NS

static float **mkdm(const float *v)
{
        float **dm = malloc(sizeof(float *) * NN);
        __CPROVER_assume(dm != NULL);
        int k = 0;
        for (int i = 0; i < NN; i++) { dm[i] = malloc(sizeof(float) * NN); __CPROVER_assume(dm[i] != NULL); }
        for (int i = 0; i < NN; i++) { dm[i][i] = 0.0f; for (int j = i + 1; j < NN; j++) { dm[i][j] = v[k]; dm[j][i] = v[k]; k++; } }
        return dm;
}
static int leaves, internal;
static int seen[NN];
static void walk(struct node *n, int depth)
{
        if (depth > NN + 1 || !n) return;
        if (n->left && n->right) { internal++; walk(n->left, depth + 1); walk(n->right, depth + 1); }
        else { leaves++; if (n->id >= 0 && n->id < NN) seen[n->id]++; }
}
static int clade_found;
static unsigned leafmask(struct node *n, int depth)
{
        if (depth > NN + 1 || !n) return 0;
        unsigned m;
        if (n->left && n->right) m = leafmask(n->left, depth + 1) | leafmask(n->right, depth + 1);
        else m = (n->id >= 0 && n->id < NN) ? (1u << n->id) : 0;
#ifdef VK_CMASK
        if (m == VK_CMASK) clade_found = 1;
#endif
        return m;
}
static int same(struct node *a, struct node *b, int depth)
{
        if (depth > NN + 1) return 1;
        if (!a || !b) return a == b;
        if ((a->left && a->right) != (b->left && b->right)) return 0;
        if (!(a->left && a->right)) return a->id == b->id;
        return same(a->left, b->left, depth + 1) && same(a->right, b->right, depth + 1);
}

VK_MAIN()
{
        VK_INIT();
        float v[NN * (NN - 1) / 2];
        int samples[NN];
        for (int i = 0; i < NN; i++) samples[i] = i;
        for (int k = 0; k < NN * (NN - 1) / 2; k++) {
#if VK_MODE == 3
                v[k] = vin.f[0];
#else
                v[k] = vin.f[k];
#endif
                VK_ASSUME(v[k] >= 0.0f && v[k] <= 20000.0f);
        }
#if VK_MODE == 2
        /* the sequences in VK_CMASK are copies of one sequence of length L (d = min(10000,L)/10000 <= 1 among them);
         * copies have identical distances r_w to every other sequence w, and r_w >= 1 + d/2 (edit distance >= 1 because
         * neither contains the other, plus the length term (L+lw)/2/10000 >= d/2) */
        {
                int k = 0;
                float d = vin.f[NN * (NN - 1) / 2];
                VK_ASSUME(d >= 0.0f && d <= 1.0f);
                int first_copy = -1;
                for (int i = 0; i < NN; i++) if (first_copy < 0 && ((VK_CMASK >> i) & 1)) first_copy = i;
                float r[NN];
                for (int i = 0; i < NN; i++) for (int j = i + 1; j < NN; j++) {
                        int ci = (VK_CMASK >> i) & 1, cj = (VK_CMASK >> j) & 1;
                        if (ci && cj) v[k] = d;
                        else if (ci || cj) {
                                int w = ci ? j : i, c = ci ? i : j;
                                if (c == first_copy) { VK_ASSUME(v[k] >= 1.0f + d * 0.5f); r[w] = v[k]; }
                        }
                        k++;
                }
                k = 0;
                for (int i = 0; i < NN; i++) for (int j = i + 1; j < NN; j++) {
                        int ci = (VK_CMASK >> i) & 1, cj = (VK_CMASK >> j) & 1;
                        if (ci != cj) { int w = ci ? j : i; v[k] = r[w]; }
                        k++;
                }
        }
#endif
        float **dm = mkdm(v);
        struct node *t = upgma(dm, samples, NN);
        VK_ASSERT(t != NULL, "upgma returns a tree");
        leaves = internal = 0;
        for (int i = 0; i < NN; i++) seen[i] = 0;
        walk(t, 0);
        VK_ASSERT(leaves == NN && internal == NN - 1, "C08/C03: the guide tree is a full binary tree over all sequences");
        for (int i = 0; i < NN; i++) VK_ASSERT(seen[i] == 1, "C08/C03: every sequence is a leaf exactly once");
#if VK_MODE == 1
        float **dm2 = mkdm(v);
        struct node *t2 = upgma(dm2, samples, NN);
        VK_ASSERT(same(t, t2, 0), "C03: the guide tree is a function of the distance matrix (no hidden state, no address dependence)");
        /* first join = first strict minimum in scan order */
        {
                int k = 0, bi = 0, bj = 1; float best = v[0];
                for (int i = 0; i < NN; i++) for (int j = i + 1; j < NN; j++) { if (v[k] < best) { best = v[k]; bi = i; bj = j; } k++; }
                /* the deepest-left internal node built first: find the internal node whose children are both leaves bi,bj */
                int found = 0;
                struct node *stack[2 * NN]; int sp = 0; stack[sp++] = t;
                for (int it = 0; it < 2 * NN; it++) if (sp > 0) {
                        struct node *n = stack[--sp];
                        if (n->left && n->right) {
                                if (!(n->left->left) && !(n->right->left) && n->left->id == bi && n->right->id == bj) found = 1;
                                if (sp < 2 * NN - 2) { stack[sp++] = n->left; stack[sp++] = n->right; }
                        }
                }
                VK_ASSERT(found, "C03: the closest pair (first strict minimum in canonical scan order) is joined first, left = lower index");
        }
#elif VK_MODE == 2
        clade_found = 0;
        (void)leafmask(t, 0);
        VK_ASSERT(clade_found, "C12: the copies of one sequence form a clade of the guide tree (they are merged with each other before anything else)");
#endif
        VK_END();
}
