/* C16-O3 / C05-O4: paired allocation / release of the library's objects (real msa_alloc.c, task.c, aln_mem.c, aln_param.c,
 * msa_op.c set_sip_nsip), checked with CBMC's memory-leak check, double-free and use-after-free checks.
 * VK_MODE 1: alloc_msa(VK_N) [+ resize_msa_seq on one sequence] + set_sip_nsip + kalign_free_msa
 * VK_MODE 2: alloc_tasks(VK_N) + free_tasks;  alloc_aln_mem + resize_aln_mem (symbolic lengths) + free_aln_mem
 * VK_MODE 3: aln_param_init (symbolic biotype/type/penalties, success and rejection) + aln_param_free
 * VK_MODE 4: kalign_arr_to_msa on VK_N sequences of VK_L arbitrary bytes + kalign_free_msa
 */
#include "vk.h"
#include "tldevel.h"
#include <stdlib.h>
#include "kalign/kalign.h"
#include "msa_struct.h"
#include "msa_alloc.h"
#include "msa_op.h"
#include "task.h"
#include "aln_struct.h"
#include "aln_mem.h"
#include "aln_param.h"
#include "msa_check.h"
int kalign_arr_to_msa(char **input_sequences, int *len, int numseq, struct msa **multiple_aln);

/* mode 4: the kind decision's arithmetic is C13; a stand-in keeps the life-cycle instance cheap */
int vk_detect_alphabet(struct msa *msa) { msa->biotype = ALN_BIOTYPE_DNA; return OK; }

VK_MAIN()
{
        VK_INIT();
#if VK_MODE == 1
        struct msa *m = NULL;
        VK_ASSERT(alloc_msa(&m, VK_N) == OK && m != NULL, "alloc_msa succeeds");
        m->numseq = VK_N;
        if (vin.b[0] & 1) VK_ASSERT(resize_msa_seq(m->sequences[0]) == OK && m->sequences[0]->alloc_len == 1024, "a sequence buffer grows by 512");
        /* several input files: the member lists are rebuilt each time a file is merged, with a growing sequence count */
        if (vin.b[0] & 2) { m->numseq = 1; VK_ASSERT(set_sip_nsip(m) == OK, "set_sip_nsip succeeds"); m->numseq = VK_N; }
        VK_ASSERT(set_sip_nsip(m) == OK, "set_sip_nsip succeeds (again, with more sequences)");
        kalign_free_msa(m);
#elif VK_MODE == 5
        /* zero-length records are dropped by the input check; the msa (with its spare pre-allocated records) must still be
         * released completely afterwards */
        struct msa *m = NULL;
        VK_ASSERT(alloc_msa(&m, VK_N + 1) == OK && m != NULL, "alloc_msa succeeds");
        m->numseq = VK_N; m->quiet = 1;
        for (int i = 0; i < VK_N; i++) { m->sequences[i]->len = vin.b[i] & 1; m->sequences[i]->name[0] = 'a'; m->sequences[i]->name[1] = 0; }
        int rc = kalign_essential_input_check(m, 0);
        (void)rc;
        kalign_free_msa(m);
#elif VK_MODE == 2
        struct aln_tasks *t = NULL;
        VK_ASSERT(alloc_tasks(&t, VK_N) == OK, "alloc_tasks succeeds");
        free_tasks(t);
        struct aln_mem *mm = NULL;
        VK_ASSERT(alloc_aln_mem(&mm, 4) == OK, "alloc_aln_mem succeeds");
        mm->len_a = vin.b[1] & 15; mm->len_b = vin.b[2] & 15;
        VK_ASSERT(resize_aln_mem(mm) == OK, "resize_aln_mem succeeds");
        VK_ASSERT(mm->size >= (mm->len_a > mm->len_b ? mm->len_a : mm->len_b) + 2 && mm->alloc_path_len >= mm->len_a + mm->len_b + 2, "C05: DP buffers cover the problem size");
        free_aln_mem(mm);
#elif VK_MODE == 3
        struct aln_param *ap = NULL;
        float g = vin.f[0]; VK_ASSUME(g == g);
        int rc = aln_param_init(&ap, vin.b[0] & 3, 1, vin.b[1] & 7, g, -1.0f, -1.0f);
        if (rc == OK) aln_param_free(ap);
        else VK_ASSERT(ap == NULL, "C16: a rejected aln_param_init hands nothing to the caller (kalign_run's error path frees whatever it was given)");
#elif VK_MODE == 4
        static char bufs[VK_N][VK_L + 1]; char *seqs[VK_N]; int lens[VK_N];
        for (int i = 0; i < VK_N; i++) { for (int k = 0; k < VK_L; k++) { bufs[i][k] = (char)vin.b[i * VK_L + k]; VK_ASSUME(vin.b[i * VK_L + k] != 0); } bufs[i][VK_L] = 0; seqs[i] = bufs[i]; lens[i] = VK_L; }
        struct msa *m = NULL;
        int rc = kalign_arr_to_msa(seqs, lens, VK_N, &m);
        if (rc == OK) {
                VK_ASSERT(m != NULL && m->numseq == VK_N, "array API builds one record per sequence");
                kalign_free_msa(m);
        }
#endif
        VK_END();
}
