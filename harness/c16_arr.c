/* C16-O2: the array entry point does not depend on uninitialised memory: kalign_arr_to_msa (real lib/src/msa_op.c) is run
 * TWICE on the same arguments (self-composition); CBMC's fresh heap objects are nondeterministic and independent, so any
 * field that is not a function of the arguments can differ between the two results.  Compared: everything the rest of
 * the pipeline reads - names (they decide the canonical order of equal-length sequences), residues, lengths, gap
 * vectors, histogram, kind and status.
 * symbolic: the sequences' bytes (7-bit, non-NUL); concrete: VK_N sequences of VK_L bytes.
 */
#include "vk.h"
#include "tldevel.h"
#include <stdlib.h>
#include <string.h>
#include "msa_struct.h"
#include "msa_alloc.h"
#include "msa_op.h"
int kalign_arr_to_msa(char **input_sequences, int *len, int numseq, struct msa **multiple_aln);

/* detect_alphabet is a function of the histogram alone (C13-O3) whose arithmetic is decided in C13; here it is replaced
 * (goto-instrument --replace-calls, logged) by a stand-in that gives the SAME arbitrary answer in both runs, including
 * "cannot tell" (the real function then leaves msa->biotype untouched) */
static int vk_kind;
int vk_detect_alphabet(struct msa *msa) { if (vk_kind == ALN_BIOTYPE_DNA || vk_kind == ALN_BIOTYPE_PROTEIN) msa->biotype = (uint8_t)vk_kind; return OK; }

VK_MAIN()
{
        VK_INIT();
        vk_kind = vin.i[0];
        static char bufs[VK_N][VK_L + 1]; char *seqs[VK_N]; int lens[VK_N];
        for (int i = 0; i < VK_N; i++) {
                for (int k = 0; k < VK_L; k++) { unsigned char c = vin.b[i * VK_L + k]; VK_ASSUME(c != 0 && c < 128); bufs[i][k] = (char)c; }
                bufs[i][VK_L] = 0; seqs[i] = bufs[i]; lens[i] = VK_L;
        }
        struct msa *m1 = NULL, *m2 = NULL;
        int r1 = kalign_arr_to_msa(seqs, lens, VK_N, &m1);
        int r2 = kalign_arr_to_msa(seqs, lens, VK_N, &m2);
        VK_ASSERT(r1 == r2, "C16: same arguments, same status");
        if (r1 == OK && r2 == OK) {
                VK_ASSERT(m1->numseq == m2->numseq && m1->biotype == m2->biotype && m1->aligned == m2->aligned, "C16: kind and status are functions of the arguments");
                for (int c = 0; c < 128; c++) VK_ASSERT(m1->letter_freq[c] == m2->letter_freq[c], "C16: histogram is a function of the arguments");
                for (int i = 0; i < VK_N; i++) {
                        struct msa_seq *x = m1->sequences[i], *y = m2->sequences[i];
                        VK_ASSERT(x->len == y->len && x->len == VK_L, "C16: lengths");
                        VK_ASSERT(x->rank == i, "C01: the array entry point records the input position of each sequence");
                        for (int k = 0; k < VK_L; k++) VK_ASSERT(x->seq[k] == bufs[i][k], "C01: the array entry point stores the caller's residues unchanged (same letters, same case)");
                        VK_ASSERT(x->seq[VK_L] == 0, "C01: stored sequence is terminated");
                        for (int k = 0; k <= VK_L; k++) VK_ASSERT(x->seq[k] == y->seq[k] && x->gaps[k] == y->gaps[k] && x->gaps[k] == 0, "C16: residues and gap vectors");
                        int same = 1, ended = 0;
                        for (int k = 0; k < 8; k++) if (!ended) { if (x->name[k] != y->name[k]) same = 0; if (x->name[k] == 0 || y->name[k] == 0) ended = 1; }
                        VK_ASSERT(same && ended, "C16/C02: sequence names (used by the canonical sort) do not depend on heap garbage");
                }
        }
        VK_END();
}
