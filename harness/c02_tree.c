/* C02-O1a: tree-parallel merges.  The real recursive_aln (lib/src/aln_run.c), with its OpenMP task pragmas rewritten
 * mechanically into CBMC threads (vk/omp.py -> gen_aln_run_omp.c, regenerated from /repo on every run), runs on a
 * concrete guide tree (VK_TREE = list of {a,b,c} tasks); CBMC explores ALL interleavings of the tasks.
 * do_align is replaced (goto-instrument --replace-calls, logged) by a recorder that asserts:
 *   - both inputs of a merge are complete when the merge starts (leaf, or internal node whose merge has ENDED);
 *   - no other merge is running on the same node; every node is merged exactly once;
 * After the root call returns every merge is done.
 */
#include "vk.h"
#include "tldevel.h"
#include <stdlib.h>
#include "gen_aln_run_omp.c"

int vk_pending[VK_MAX_FRAMES];
int vk_nframes = 0;

#define NT VK_NTASKS
#define NLEAF (NT + 1)
static const int TREE[NT][3] = VK_TREE;
#include "gen_tree.h"
static int started[2 * NLEAF], ended[2 * NLEAF];
static int violation_early = 0, violation_twice = 0, violation_mem = 0, running = 0, max_running = 0;

int vk_do_align(struct msa *msa, struct aln_tasks *t, struct aln_mem *m, int task_id)
{
        int a = t->list[task_id]->a, b = t->list[task_id]->b, c = t->list[task_id]->c;
        __CPROVER_atomic_begin();
        if ((a >= msa->numseq && !ended[a]) || (b >= msa->numseq && !ended[b])) violation_early = 1;
        if (started[c]) violation_twice = 1;
        started[c] = 1;
        running++; if (running > max_running) max_running = running;
        __CPROVER_atomic_end();
        /* ... the merge itself happens here ... */
        __CPROVER_atomic_begin();
        ended[c] = 1; running--;
        __CPROVER_atomic_end();
        return OK;
}

/* per-merge DP memory: the real allocator uses malloc/free, which CBMC cannot track across threads ("pointer handling
 * for concurrency is unsound"); stand-ins hand out distinct objects from a pool (installed with --replace-calls) */
struct aln_mem *vk_alloc_aln_mem_ret(int x) { (void)x; return (struct aln_mem *)0; }   /* unused: the rewrite places the object in the task's frame */
void vk_free_aln_mem(struct aln_mem *m) { (void)m; }

VK_MAIN()
{
        VK_INIT();
        /* the guide tree is CONSTANT data (gen_tree.h): CBMC treats every read of a writable shared object inside a thread
         * as a fresh symbol, which would make the tree symbolic and the thread count explode */
        static uint8_t active[2 * NLEAF];
        for (int i = 0; i < 2 * NLEAF; i++) active[i] = i < NLEAF ? 1 : 0;
        static struct aln_param ap;
        recursive_aln((struct msa *)&vk_msa, (struct aln_tasks *)&vk_t, &ap, active, NT - 1);
        VK_ASSERT(!violation_early, "C02: no merge of two groups starts before both groups are complete");
        VK_ASSERT(!violation_twice, "C02: every node is merged exactly once");
        for (int i = 0; i < NT; i++) VK_ASSERT(ended[TREE[i][2]], "C02: when the root returns every merge has finished");
        VK_END();
}
