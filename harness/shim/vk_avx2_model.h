/* Model of the AVX2 intrinsics used by lib/src/bpm.c, written from Intel's pseudo-code.
 * __m256i is four 64-bit lanes, lane 0 = least significant.  Every function is vk_-prefixed; the shim
 * immintrin.h maps the _mm256_* names onto them.  tools/shim_difftest.c compares each against the real
 * instruction on random operands at setup time (when the CPU has AVX2). */
#ifndef VK_AVX2_MODEL_H
#define VK_AVX2_MODEL_H
#include <stdint.h>
typedef struct { uint64_t q[4]; } vk_m256i;
typedef struct { uint64_t q[4]; } vk_m256d;

static inline vk_m256i vk_load_si256(const vk_m256i *p) { return *p; }
static inline vk_m256i vk_set1_epi64x(long long a) { vk_m256i r = {{(uint64_t)a, (uint64_t)a, (uint64_t)a, (uint64_t)a}}; return r; }
static inline vk_m256i vk_setzero_si256(void) { vk_m256i r = {{0, 0, 0, 0}}; return r; }
static inline vk_m256i vk_set_epi64x(long long e3, long long e2, long long e1, long long e0) { vk_m256i r = {{(uint64_t)e0, (uint64_t)e1, (uint64_t)e2, (uint64_t)e3}}; return r; }
#define VK_LANEWISE(name, expr) static inline vk_m256i name(vk_m256i a, vk_m256i b) { vk_m256i r; for (int i = 0; i < 4; i++) { uint64_t x = a.q[i], y = b.q[i]; r.q[i] = (expr); } return r; }
VK_LANEWISE(vk_or_si256, x | y)
VK_LANEWISE(vk_and_si256, x & y)
VK_LANEWISE(vk_xor_si256, x ^ y)
VK_LANEWISE(vk_andnot_si256, (~x) & y)
VK_LANEWISE(vk_add_epi64, x + y)
VK_LANEWISE(vk_cmpgt_epi64, ((int64_t)x > (int64_t)y) ? ~(uint64_t)0 : 0)
VK_LANEWISE(vk_cmpeq_epi64, (x == y) ? ~(uint64_t)0 : 0)
static inline int vk_testz_si256(vk_m256i a, vk_m256i b) { return ((a.q[0] & b.q[0]) | (a.q[1] & b.q[1]) | (a.q[2] & b.q[2]) | (a.q[3] & b.q[3])) == 0; }
static inline vk_m256d vk_castsi256_pd(vk_m256i a) { vk_m256d r; for (int i = 0; i < 4; i++) r.q[i] = a.q[i]; return r; }
static inline int vk_movemask_pd(vk_m256d a) { return (int)((a.q[0] >> 63) | ((a.q[1] >> 63) << 1) | ((a.q[2] >> 63) << 2) | ((a.q[3] >> 63) << 3)); }
/* shift counts > 63 give 0 (Intel: IF count > 63 THEN dst := 0) */
static inline vk_m256i vk_srli_epi64(vk_m256i a, int c) { vk_m256i r; for (int i = 0; i < 4; i++) r.q[i] = ((unsigned)c > 63) ? 0 : (a.q[i] >> (c & 63)); return r; }
static inline vk_m256i vk_slli_epi64(vk_m256i a, int c) { vk_m256i r; for (int i = 0; i < 4; i++) r.q[i] = ((unsigned)c > 63) ? 0 : (a.q[i] << (c & 63)); return r; }
static inline vk_m256i vk_permute4x64_epi64(vk_m256i a, int imm) { vk_m256i r; for (int i = 0; i < 4; i++) r.q[i] = a.q[(imm >> (2 * i)) & 3]; return r; }
static inline vk_m256i vk_blend_epi32(vk_m256i a, vk_m256i b, int imm)
{
        vk_m256i r;
        for (int i = 0; i < 4; i++) {
                uint64_t lo = ((imm >> (2 * i)) & 1) ? (b.q[i] & 0xffffffffull) : (a.q[i] & 0xffffffffull);
                uint64_t hi = ((imm >> (2 * i + 1)) & 1) ? (b.q[i] & 0xffffffff00000000ull) : (a.q[i] & 0xffffffff00000000ull);
                r.q[i] = lo | hi;
        }
        return r;
}
#endif
