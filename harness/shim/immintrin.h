/* shim <immintrin.h> for CBMC (no AVX2 model in CBMC): maps the intrinsics used by bpm.c to vk_avx2_model.h */
#ifndef VK_SHIM_IMMINTRIN_H
#define VK_SHIM_IMMINTRIN_H
#include "vk_avx2_model.h"
typedef vk_m256i __m256i;
typedef vk_m256d __m256d;
#define _mm256_load_si256(p) vk_load_si256((const vk_m256i *)(p))
#define _mm256_set1_epi64x vk_set1_epi64x
#define _mm256_setzero_si256 vk_setzero_si256
#define _mm256_set_epi64x vk_set_epi64x
#define _mm256_or_si256 vk_or_si256
#define _mm256_and_si256 vk_and_si256
#define _mm256_xor_si256 vk_xor_si256
#define _mm256_andnot_si256 vk_andnot_si256
#define _mm256_add_epi64 vk_add_epi64
#define _mm256_cmpgt_epi64 vk_cmpgt_epi64
#define _mm256_cmpeq_epi64 vk_cmpeq_epi64
#define _mm256_testz_si256 vk_testz_si256
#define _mm256_castsi256_pd vk_castsi256_pd
#define _mm256_movemask_pd vk_movemask_pd
#define _mm256_srli_epi64 vk_srli_epi64
#define _mm256_slli_epi64 vk_slli_epi64
#define _mm256_permute4x64_epi64 vk_permute4x64_epi64
#define _mm256_blend_epi32 vk_blend_epi32
#endif
