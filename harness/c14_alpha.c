/* C14-O1 / C05-O2: the letter -> residue-class tables (real lib/src/alphabet.c) and their use by
 * convert_msa_to_internal (real lib/src/msa_op.c).
 *   symbolic: the letters of one sequence (vin.b[0..LEN-1]), the case-flip / T<->U pattern (vin.b[LEN..]),
 *   and the prior contents of the code buffer s[] (uninitialised heap in the real allocator).
 *   ALPHA = 5 (nucleotide), 13 (reduced protein, guide tree), 23 (full protein, alignment)
 */
#include "vk.h"
#include "tldevel.h"
#include "vk_msa.h"
#include "msa_op.h"

#ifndef LEN
#define LEN 2
#endif

VK_MAIN()
{
        VK_INIT();
        /* ---- table level ---- */
        struct alphabet *a = create_alphabet(ALPHA);
        VK_ASSUME(a != NULL);
        unsigned char c = vin.b[0];
        VK_ASSUME(vk_isalpha(c));
        VK_ASSERT(a->L == ALPHA, "alphabet has its nominal number of classes");
        VK_ASSERT(a->to_internal[c] == a->to_internal[c ^ 0x20], "C14: upper and lower case letters have the same class");
        if (ALPHA == ALPHA_defDNA)
                VK_ASSERT(a->to_internal['U'] == a->to_internal['T'] && a->to_internal['u'] == a->to_internal['t'], "C14: U and T have the same class");
        VK_ASSERT(a->to_internal[c] >= -1 && a->to_internal[c] < a->L, "C05: class codes are -1 or below L");
        int L = a->L;
        free(a);

        /* ---- conversion level: two spellings of the same sequence ---- */
        struct msa *m = vk_mk_msa(2, LEN + 1);
        m->numseq = 2;
        struct msa_seq *x = m->sequences[0], *y = m->sequences[1];
        x->len = y->len = LEN;
        for (int j = 0; j < LEN; j++) {
                unsigned char l = vin.b[j];
                VK_ASSUME(vk_isalpha(l));
                unsigned char l2 = l;
                if (vin.b[LEN + j] & 1) l2 ^= 0x20;                       /* case flip */
                if (ALPHA == ALPHA_defDNA && (vin.b[LEN + j] & 2)) {      /* T <-> U */
                        if ((l2 | 0x20) == 't') l2 = (l2 & 0x20) | 'U';
                        else if ((l2 | 0x20) == 'u') l2 = (l2 & 0x20) | 'T';
                }
                x->seq[j] = (char)l; y->seq[j] = (char)l2;
        }
        x->seq[LEN] = 0; y->seq[LEN] = 0;
        int rc = convert_msa_to_internal(m, ALPHA);
        VK_ASSERT(rc == OK, "conversion succeeds");
        VK_ASSERT(m->L == L, "msa->L is the alphabet size");
        for (int j = 0; j < LEN; j++) {
                VK_ASSERT(x->s[j] < L, "C05: every accepted residue letter is mapped to a defined residue class (< L)");
                VK_ASSERT(x->s[j] == y->s[j], "C14: case / T-U spelling does not change the residue class");
                VK_ASSERT(x->seq[j] == (char)vin.b[j], "C01: conversion leaves the residue letters untouched");
        }
        VK_END();
}
