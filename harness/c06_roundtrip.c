/* C06: write/read round trip (real writers and readers of lib/src/msa_io.c through the in-memory tape).
 * concrete: VK_FMT (1 fasta, 2 msf, 3 clustal), VK_NS rows, VK_ALN columns, name lengths VK_NL1..3
 * symbolic: every row character (letter of either case or '-'), name characters (with -DVK_SYM_NAMES),
 *           molecule kind (concrete VK_KIND for MSF).
 * assert: the tape is recognised as its format; reading gives the same number of rows in the same order with the
 *         same names, seq = row without gaps, gaps[] = run lengths of '-' (same gaps in the same places).
 */
#include "vk.h"
#include <ctype.h>
#include <stdlib.h>
#include "vk_io.h"
#include "msa_io.c"
#include "vk_msa.h"

#ifndef VK_NL3
#define VK_NL3 1
#endif
#ifndef VK_NLMAX
#define VK_NLMAX 3      /* longest name of the instance */
#endif
static const int NL[3] = {VK_NL1, VK_NL2, VK_NL3};
#define NBLOCKS ((VK_ALN + 59) / 60)
#define MAXNL (VK_NL1 > VK_NL2 ? (VK_NL1 > VK_NL3 || VK_NS < 3 ? VK_NL1 : VK_NL3) : (VK_NL2 > VK_NL3 || VK_NS < 3 ? VK_NL2 : VK_NL3))

struct line_buffer *vk_alloc_line_buffer(int max_line_len)
{
        struct line_buffer *lb = malloc(sizeof(struct line_buffer));
        __CPROVER_assume(lb != NULL);
        lb->alloc_num_lines = VK_LB_LINES; lb->num_line = 0; lb->max_line_len = max_line_len;
        lb->lines = malloc(sizeof(struct out_line *) * VK_LB_LINES);
        __CPROVER_assume(lb->lines != NULL);
        for (int i = 0; i < VK_LB_LINES; i++) {
                lb->lines[i] = malloc(sizeof(struct out_line));
                __CPROVER_assume(lb->lines[i] != NULL);
                lb->lines[i]->block = 0; lb->lines[i]->seq_id = 0;
                lb->lines[i]->line = malloc(max_line_len);
                __CPROVER_assume(lb->lines[i]->line != NULL);
        }
        return lb;
}

static int name_char_ok(unsigned char c) { return (c >= 'A' && c <= 'Z') || (c >= 'a' && c <= 'z') || (c >= '0' && c <= '9') || c == '_' || c == '.' || c == '|' || c == '-'; }

/* the input buffer the real read_file_stdin would build from the tape: one in_line per text line, len = number of
 * characters before the line end.  A tape entry starting with '\n' is the writers' block separator "\n" + "\n": two
 * empty lines.  Line lengths are structural (known from the sizes); the harness asserts the tape agrees. */
static struct in_line in_lines[2 * VK_OUT_LINES];
static struct in_line *in_ptrs[2 * VK_OUT_LINES];
static char empty_line[2] = {0, 0};
static struct in_buffer inb;
static int add_line(int n, char *txt, int len) { in_lines[n].line = txt; in_lines[n].len = len; in_ptrs[n] = &in_lines[n]; return n + 1; }

VK_MAIN()
{
        VK_INIT();
        int vb = 0;
        struct msa *m = vk_mk_msa(VK_NS, VK_ALN + 1);
        m->numseq = VK_NS; m->aligned = ALN_STATUS_FINAL; m->alnlen = VK_ALN;
#ifdef VK_KIND
        /* MSF: the molecule kind decides header TEXT ("!!AA"/"!!NA", Type: P/N); a symbolic kind makes the header lines the
         * reader searches symbolic and with them the number of header lines - both kinds are separate instances instead */
        int biotype = VK_KIND ? ALN_BIOTYPE_PROTEIN : ALN_BIOTYPE_DNA; vb++;
#else
        int biotype = vin.b[vb++] ? ALN_BIOTYPE_PROTEIN : ALN_BIOTYPE_DNA;
#endif
        m->biotype = biotype;
        m->L = biotype == ALN_BIOTYPE_PROTEIN ? ALPHA_ambigiousPROTEIN : ALPHA_defDNA;
        int nres[VK_NS];
        for (int s = 0; s < VK_NS; s++) {
                nres[s] = 0;
                for (int c = 0; c < VK_ALN; c++) {
                        unsigned char ch = vin.b[vb++];
#ifdef VK_WIN_LO
                        /* wide instances: only columns VK_WIN_LO..VK_WIN_HI-1 are symbolic, the rest is a fixed backdrop */
                        if (c < VK_WIN_LO || c >= VK_WIN_HI) ch = ((c * 7 + s * 3) % 5 == 0) ? '-' : (unsigned char)("ACDEFGHIKLmnpqrstvwy"[(c + 3 * s) % 20]);
#endif
                        VK_ASSUME(vk_isalpha(ch) || ch == '-');
                        m->sequences[s]->seq[c] = (char)ch;
                        if (ch != '-') nres[s]++;
                }
                m->sequences[s]->seq[VK_ALN] = 0;
                VK_ASSUME(nres[s] >= 1);
                m->sequences[s]->len = nres[s];
                for (int k = 0; k < VK_NLMAX; k++) if (k < NL[s]) {
#ifdef VK_SYM_NAMES
                        unsigned char ch = vin.b[vb++]; VK_ASSUME(name_char_ok(ch));
#elif defined(VK_LONG_NAMES)
                        unsigned char ch = (unsigned char)("Kx7_.|-q"[(k + 3 * s) % 8]);   /* long concrete names over the allowed character set */
#elif defined(VK_PREFIX_NAMES)
                        unsigned char ch = (unsigned char)("ABC"[k]);   /* every shorter name is a proper prefix of every longer one */
#else
                        unsigned char ch = (unsigned char)("_aQ.7||-Z"[3 * s + k]);
#endif
                        m->sequences[s]->name[k] = (char)ch;
                }
                m->sequences[s]->name[NL[s]] = 0;
        }
        vk_layout_fill(VK_FMT, VK_NS, VK_ALN, NL, MAXNL);
        int rc = kalign_write_msa(m, NULL, VK_FMT == 1 ? "fasta" : VK_FMT == 2 ? "msf" : "clu");
        VK_ASSERT(rc == OK && !vk_tape_overflow && vk_tape_col == 0, "C06: writing succeeds (tape large enough)");

        /* ---- tape -> input buffer ---- */
        int n = 0;
        for (int t = 0; t < VK_OUT_LINES; t++) if (t < vk_tape_n) {
                /* line lengths come from the layout (concrete); vk_io.h asserted that the writer's lines agree with it */
                int len = vk_expect_len[t];
                if (len == -2) { n = add_line(n, empty_line, 0); n = add_line(n, empty_line, 0); continue; }
#if VK_FMT == 1
                if (t % (1 + NBLOCKS) != 0) {
                        int b = t % (1 + NBLOCKS) - 1;
                        len = (b + 1) * 60 <= VK_ALN ? 60 : VK_ALN - b * 60;
                        for (int c = 0; c < 60; c++) if (c < len) VK_ASSERT(vk_tape[t].c[c] != 0, "C06: FASTA data line has its structural length");
                        VK_ASSERT(vk_tape[t].c[len] == 0, "C06: FASTA data line ends where the layout says");
                }
#endif
                n = add_line(n, vk_tape[t].c, len);
        }
        inb.l = in_ptrs; inb.n_lines = n; inb.alloc_lines = 2 * VK_OUT_LINES;
        int type = 0;
        VK_ASSERT(detect_alignment_format(&inb, &type) == OK, "format detection runs");
        VK_ASSERT(type == (VK_FMT == 1 ? FORMAT_FA : VK_FMT == 2 ? FORMAT_MSF : FORMAT_CLU), "C06: kalign recognises the format it wrote");
        struct msa *r = NULL;
#if VK_FMT == 1
        rc = read_fasta(&inb, &r);
#elif VK_FMT == 2
        rc = read_msf(&inb, &r);
#else
        rc = read_clu(&inb, &r);
#endif
        VK_ASSERT(rc == OK && r != NULL, "C06: reading back succeeds");
        VK_ASSERT(r->numseq == VK_NS, "C06: same number of rows");
        for (int s = 0; s < VK_NS; s++) {
                struct msa_seq *q = r->sequences[s];
                for (int k = 0; k <= VK_NLMAX; k++) if (k <= NL[s]) VK_ASSERT(q->name[k] == m->sequences[s]->name[k], "C06: same names in the same order");
                VK_ASSERT(q->len == nres[s], "C06: same number of residues");
                int k = 0, run = 0;
                for (int c = 0; c < VK_ALN; c++) {
                        char ch = m->sequences[s]->seq[c];
                        if (ch == '-') run++;
                        else {
                                VK_ASSERT(k < q->len && q->seq[k] == ch, "C06: same residues (letters and case)");
                                VK_ASSERT(q->gaps[k] == run, "C06: same gaps in the same places");
                                k++; run = 0;
                        }
                }
                VK_ASSERT(q->gaps[nres[s]] == run, "C06: same trailing gaps");
                VK_ASSERT(q->seq[nres[s]] == 0, "C06: sequence terminated");
        }
        VK_END();
}
