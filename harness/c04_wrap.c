/* kalign_run / kalign orchestration (real lib/src/aln_wrap.c, included): every stage it calls is a recorder that
 * answers OK/FAIL arbitrarily and logs the order and arguments.  Serves several properties:
 *  C04-O2  input that is not known to be unaligned (status != UNALIGNED) is de-aligned before anything else looks at it
 *  C03     the canonical sort happens before alphabet conversion / tree / alignment, the caller's order is restored last
 *  C01     ranks are assigned (input check) before the sort; finalise before the rank sort; status ALIGNED set before finalise
 *  C09-O3  type and the three penalties reach aln_param_init unchanged, with the detected biotype and thread count
 *  C13/C05 unknown biotype is rejected; DNA -> nucleotide alphabet, protein -> reduced alphabet for the tree then the full one
 *  C16     parameters and tasks are released exactly once on success and on every failure
 * symbolic: msa->aligned, msa->biotype, n_threads, type, gpo, gpe, tgpe, and which stage fails.
 */
#include "vk.h"
#include "tldevel.h"
#include <stdlib.h>
#include "aln_wrap.c"

enum { S_CHECK = 1, S_DEALIGN, S_SORTLEN, S_CONV, S_ALLOCT, S_TREE, S_CONV2, S_PARAM, S_ALIGN, S_FINAL, S_SORTRANK, S_PFREE, S_TFREE, S_ARR2MSA, S_MSA2ARR, S_FREEMSA };
static int logv[24], logn = 0, failat = 0;
static int conv_type[2], nconv = 0;
static int p_biotype, p_threads, p_type; static float p_gpo, p_gpe, p_tgpe;
static struct aln_param the_ap; static struct aln_tasks the_tasks;
static int n_pfree = 0, n_tfree = 0, status_at_final = -1, n_freemsa = 0;
static int step(int s) { if (logn < 24) logv[logn] = s; logn++; return (failat == logn) ? FAIL : OK; }
static int pos(int s) { for (int i = 0; i < 24; i++) if (i < logn && logv[i] == s) return i; return -1; }

int kalign_essential_input_check(struct msa *msa, int exit_on_error) { (void)msa; VK_ASSERT(exit_on_error == 0, "input check in repair mode"); return step(S_CHECK); }
int dealign_msa(struct msa *msa) { int r = step(S_DEALIGN); if (r == OK) msa->aligned = ALN_STATUS_UNALIGNED; return r; }
int msa_sort_len_name(struct msa *m) { (void)m; return step(S_SORTLEN); }
int convert_msa_to_internal(struct msa *msa, int type) { (void)msa; if (nconv < 2) conv_type[nconv] = type; nconv++; return step(nconv == 1 ? S_CONV : S_CONV2); }
int alloc_tasks(struct aln_tasks **tasks, int numseq) { (void)numseq; int r = step(S_ALLOCT); if (r == OK) *tasks = &the_tasks; return r; }
int build_tree_kmeans(struct msa *msa, struct aln_tasks **tasks) { (void)msa; VK_ASSERT(*tasks == &the_tasks, "tree built on the allocated task list"); return step(S_TREE); }
int aln_param_init(struct aln_param **ap, int biotype, int n_threads, int type, float gpo, float gpe, float tgpe)
{
        p_biotype = biotype; p_threads = n_threads; p_type = type; p_gpo = gpo; p_gpe = gpe; p_tgpe = tgpe;
        int r = step(S_PARAM); if (r == OK) *ap = &the_ap; return r;
}
int create_msa_tree(struct msa *msa, struct aln_param *ap, struct aln_tasks *t) { (void)msa; VK_ASSERT(ap == &the_ap && t == &the_tasks, "alignment uses the parameters and tasks built for this call"); return step(S_ALIGN); }
int finalise_alignment(struct msa *msa) { status_at_final = msa->aligned; int r = step(S_FINAL); if (r == OK) msa->aligned = ALN_STATUS_FINAL; return r; }
int msa_sort_rank(struct msa *m) { (void)m; return step(S_SORTRANK); }
void aln_param_free(struct aln_param *ap) { if (ap) { VK_ASSERT(ap == &the_ap, "frees its own parameters"); n_pfree++; } }
void free_tasks(struct aln_tasks *t) { if (t) { VK_ASSERT(t == &the_tasks, "frees its own tasks"); n_tfree++; } }
int kalign_arr_to_msa(char **s, int *l, int n, struct msa **m) { (void)s; (void)l; (void)n; (void)m; return FAIL; }
int kalign_msa_to_arr(struct msa *msa, char ***aligned, int *out_aln_len) { (void)msa; (void)aligned; (void)out_aln_len; return FAIL; }
void kalign_free_msa(struct msa *msa) { (void)msa; n_freemsa++; }
static int sw_live = 0;   /* timers created and not yet destroyed (the real ones are heap objects) */
ESL_STOPWATCH *esl_stopwatch_Create(void) { static ESL_STOPWATCH w; sw_live++; return &w; }
void esl_stopwatch_Destroy(ESL_STOPWATCH *w) { (void)w; sw_live--; }
int esl_stopwatch_Start(ESL_STOPWATCH *w) { (void)w; return 0; }
int esl_stopwatch_Stop(ESL_STOPWATCH *w) { (void)w; return 0; }
int tl_stopwatch_Display(ESL_STOPWATCH *w) { (void)w; return 0; }

VK_MAIN()
{
        VK_INIT();
        struct msa m;
        m.numseq = 3; m.aligned = vin.i[0]; m.biotype = (uint8_t)vin.b[0]; m.quiet = 1; m.L = 0;
        int aligned0 = m.aligned, biotype = m.biotype;
        int threads = vin.i[1], type = vin.i[2];
        float gpo = vin.f[0], gpe = vin.f[1], tgpe = vin.f[2];
        VK_ASSUME(gpo == gpo && gpe == gpe && tgpe == tgpe);
        failat = vin.b[1];
        int rc = kalign_run(&m, threads, type, gpo, gpe, tgpe);
        int failed = failat >= 1 && failat <= logn;
        VK_ASSERT((rc == OK) == (!failed && (biotype == ALN_BIOTYPE_DNA || biotype == ALN_BIOTYPE_PROTEIN)), "C05: kalign_run fails iff a stage failed or the kind of sequence is undetermined");
        VK_ASSERT(pos(S_CHECK) == 0, "C01: ranks are recorded (input check) before anything else");
        if (pos(S_SORTLEN) >= 0) {
                VK_ASSERT((aligned0 != ALN_STATUS_UNALIGNED) == (pos(S_DEALIGN) >= 0 && pos(S_DEALIGN) < pos(S_SORTLEN)), "C04: input not known to be unaligned is de-aligned before the canonical sort");
                if (pos(S_CONV) >= 0) VK_ASSERT(pos(S_SORTLEN) < pos(S_CONV), "C03: canonical order before conversion");
                if (pos(S_TREE) >= 0) VK_ASSERT(pos(S_SORTLEN) < pos(S_TREE), "C03: canonical order before the guide tree");
        }
        if (pos(S_CONV) >= 0) VK_ASSERT(conv_type[0] == (biotype == ALN_BIOTYPE_DNA ? ALPHA_defDNA : ALPHA_redPROTEIN), "C13: alphabet for the guide tree follows the detected kind");
        if (pos(S_ALIGN) >= 0) {
                VK_ASSERT(pos(S_TREE) < pos(S_PARAM) && pos(S_PARAM) < pos(S_ALIGN), "stage order");
                if (biotype == ALN_BIOTYPE_PROTEIN) VK_ASSERT(pos(S_CONV2) > pos(S_TREE) && pos(S_CONV2) < pos(S_ALIGN) && conv_type[1] == ALPHA_ambigiousPROTEIN, "C14: protein is aligned on the full alphabet");
                else VK_ASSERT(pos(S_CONV2) < 0, "nucleotide input is converted once");
                VK_ASSERT(p_biotype == biotype && p_threads == threads && p_type == type && p_gpo == gpo && p_gpe == gpe && p_tgpe == tgpe, "C09: type, penalties, kind and thread count reach aln_param_init unchanged");
        }
        if (rc == OK) {
                VK_ASSERT(pos(S_FINAL) > pos(S_ALIGN) && pos(S_SORTRANK) > pos(S_FINAL) && status_at_final == ALN_STATUS_ALIGNED, "C01: rows are rendered after the alignment and the caller's order is restored last");
                VK_ASSERT(m.aligned == ALN_STATUS_FINAL, "C01: result is marked final");
        }
        VK_ASSERT(n_pfree == (pos(S_PARAM) >= 0 && !(failat == pos(S_PARAM) + 1) ? 1 : 0), "C16: scoring parameters released exactly once");
        /* a stage from create_msa_tree on fails only when memory runs out (outside); every failure a caller can provoke
         * (undetermined kind, type not fitting the kind, rejected penalties) happens before - no timer may be left then */
        if (rc == OK || pos(S_ALIGN) < 0) VK_ASSERT(sw_live == 0, "C16: a successful or rejected call leaves no timer object behind");
        VK_ASSERT(n_tfree == (pos(S_ALLOCT) >= 0 && !(failat == pos(S_ALLOCT) + 1) ? 1 : 0), "C16: task list released exactly once");
        VK_END();
}
