/* C07 / C08-O1 with concrete rectangles ("decision split").
 * The Hirschberg recursion is explored as a tree of split decisions, the SOLVER doing the forking: this harness runs a
 * PLAN of steps (plan.h, generated per query by vk/props/C07.py): each step k has a concrete rectangle and concrete
 * boundary states; the real aln_runner_serial is called on it (forward, backward, meetup, aln_continue); the two
 * sub-problems aln_continue hands down are recorded by the worklist stub (c07_push.c) and
 *   - for steps whose outcome is already fixed in this branch: ASSUMED equal to the concrete tuples of the plan,
 *   - for the last step in VK_ENUM mode: assumed different from every outcome already enumerated; the query
 *     "assert(0)" then either returns one more possible outcome (concrete tuples) or is UNSAT = the enumeration of
 *     this step's outcomes is complete for ALL residue values.
 * In VK_FINAL mode every step is fixed and the end-to-end assertions are checked for all residues:
 *   path contract, bracket oracle (HIGH(returned) + tol >= LOW optimum), diagonal for equal sequences.
 * All residues stay symbolic throughout; rectangles are constants, which is what makes each step cost seconds.
 */
#include "vk.h"
#include "tldevel.h"
#include <stdlib.h>
#include <float.h>
#include "kalign/kalign.h"
#include "msa_struct.h"
#include "aln_param.h"
#include "aln_struct.h"
#include "aln_setup.h"
#include "aln_controller.h"
#define VK_LAMAX VK_LA
#define VK_LBMAX VK_LB
#include "vk_dp_oracle.h"
#include "vk_path.h"

struct vk_item { int starta, enda, startb, endb; struct states f0, b0; };
#ifndef VK_WL_MAX
#define VK_WL_MAX 8
#endif
extern struct vk_item vk_wl[VK_WL_MAX];
extern int vk_wl_n, vk_wl_overflow;
#ifndef VK_NLET
#define VK_NLET 4
#endif
static const uint8_t PROTLET[6] = {0, 4, 9, 17, 20, 22};   /* A C I W B X */

/* item encoding in the plan: sa, ea, sb, eb, fpat, bpat; pattern p: bit0 -> a = 0 (else -FLT_MAX), bit1 -> ga, bit2 -> gb */
struct pitem { int sa, ea, sb, eb, fp, bp; };
#include "plan.h"
/* plan.h defines: VK_NSTEP, static const struct pitem STEP[VK_NSTEP]; VK_NKNOWN (steps with fixed outcome),
 * static const struct pitem OUTA[], OUTB[] (expected pushes of the known steps),
 * VK_NBLOCK, static const struct pitem BLKA[], BLKB[] (already enumerated outcomes of the last step) */

static struct states pat(int p)
{
        struct states s;
        s.a = (p & 1) ? 0.0f : -FLT_MAX; s.ga = (p & 2) ? 0.0f : -FLT_MAX; s.gb = (p & 4) ? 0.0f : -FLT_MAX;
        return s;
}
static int st_eq(struct states x, int p)
{
        struct states s = pat(p);
        return x.a == s.a && x.ga == s.ga && x.gb == s.gb;
}
static int pat_of(struct states x)
{
        int p = 0;
        if (x.a == 0.0f) p += 1;
        if (x.ga == 0.0f) p += 2;
        if (x.gb == 0.0f) p += 4;
        return p;
}
int vk_out[12];
static int item_eq(const struct vk_item *w, struct pitem q)
{
        return w->starta == q.sa && w->enda == q.ea && w->startb == q.sb && w->endb == q.eb && st_eq(w->f0, q.fp) && st_eq(w->b0, q.bp);
}

VK_MAIN()
{
        VK_INIT();
        struct aln_param *ap = NULL;
        float gpo = -1.0f, gpe = -1.0f, tgpe = -1.0f;
#ifdef VK_GPO
        gpo = VK_GPO; gpe = VK_GPE; tgpe = VK_TGPE;
#endif
        int rc = aln_param_init(&ap, VK_BIOTYPE, 1, VK_TYPE, gpo, gpe, tgpe);
        VK_ASSUME(rc == OK);
        static float flat[23 * 23];
        static float *rows[23];
        for (int i = 0; i < 23; i++) { rows[i] = &flat[23 * i]; for (int j = 0; j < 23; j++) flat[23 * i + j] = ap->subm[i][j]; }
        struct aln_param apc = *ap;
        apc.subm = rows;

        uint8_t a[VK_LA + 1], b[VK_LB + 1];
        for (int i = 0; i < VK_LA; i++) { uint8_t c = vin.b[i]; VK_ASSUME(c < VK_NLET); a[i] = VK_BIOTYPE == ALN_BIOTYPE_PROTEIN ? PROTLET[c] : c; }
        for (int j = 0; j < VK_LB; j++) {
#ifdef VK_EQUAL
                uint8_t c = vin.b[j];
#else
                uint8_t c = vin.b[VK_LA + j];
#endif
                VK_ASSUME(c < VK_NLET); b[j] = VK_BIOTYPE == ALN_BIOTYPE_PROTEIN ? PROTLET[c] : c;
        }
#ifndef VK_KERNEL
#define VK_KERNEL 1
#endif
#if VK_KERNEL >= 2
        /* groups of identical copies: the profile of VK_KA copies of a (and, for VK_KERNEL 3, of VK_KB copies of b) is built by the
         * REAL profile code exactly as do_align does it - make_profile_n per copy, update_n along the diagonal, then
         * set_gap_penalties_n with the size of the other side.  All scores then scale by F = KA*KB, so the oracle is the
         * sequence-sequence oracle with the matrix and the penalties multiplied by F (tie-break terms do not scale: same tol). */
        float *profa = NULL, *profb = NULL;
        {
                int dpath[VK_LA + VK_LB + 3];
                float *p1 = NULL, *p2 = NULL, *acc = NULL;
                VK_ASSERT(make_profile_n(&apc, a, VK_LA, &acc) == OK, "make_profile_n");
                dpath[0] = VK_LA; for (int i = 1; i <= VK_LA; i++) dpath[i] = 0; dpath[VK_LA + 1] = 3;
                for (int k = 1; k < VK_KA; k++) {
                        VK_ASSERT(make_profile_n(&apc, a, VK_LA, &p2) == OK, "make_profile_n");
                        p1 = malloc(sizeof(float) * 64 * (VK_LA + 2)); __CPROVER_assume(p1 != NULL);
                        update_n(acc, p2, p1, &apc, dpath, k, 1);
                        free(acc); free(p2); p2 = NULL; acc = p1;
                }
                profa = acc;
#if VK_KERNEL == 3
                acc = NULL;
                VK_ASSERT(make_profile_n(&apc, b, VK_LB, &acc) == OK, "make_profile_n");
                dpath[0] = VK_LB; for (int i = 1; i <= VK_LB; i++) dpath[i] = 0; dpath[VK_LB + 1] = 3;
                for (int k = 1; k < VK_KB; k++) {
                        VK_ASSERT(make_profile_n(&apc, b, VK_LB, &p2) == OK, "make_profile_n");
                        p1 = malloc(sizeof(float) * 64 * (VK_LB + 2)); __CPROVER_assume(p1 != NULL);
                        update_n(acc, p2, p1, &apc, dpath, k, 1);
                        free(acc); free(p2); p2 = NULL; acc = p1;
                }
                profb = acc;
                set_gap_penalties_n(profa, VK_LA, VK_KB);
                set_gap_penalties_n(profb, VK_LB, VK_KA);
#else
                set_gap_penalties_n(profa, VK_LA, 1);
#endif
        }
#endif
        struct aln_mem mm; struct aln_mem *m = &mm;
        m->size = VK_LB + 2; m->alloc_path_len = VK_LA + VK_LB + 2;
        m->f = malloc(sizeof(struct states) * m->size); m->b = malloc(sizeof(struct states) * m->size);
        m->path = malloc(sizeof(int) * m->alloc_path_len); m->tmp_path = malloc(sizeof(int) * m->alloc_path_len);
        __CPROVER_assume(m->f && m->b && m->path && m->tmp_path);
        m->ap = &apc; m->mode = ALN_MODE_FULL; m->len_a = VK_LA; m->len_b = VK_LB;
#if VK_KERNEL == 1
        m->seq1 = a; m->seq2 = b; m->prof1 = NULL; m->prof2 = NULL; m->run_parallel = 0; m->sip = 0; m->score = 0.0f;
#elif VK_KERNEL == 2
        m->seq1 = NULL; m->seq2 = b; m->prof1 = profa; m->prof2 = NULL; m->run_parallel = 0; m->sip = VK_KA; m->score = 0.0f;
#else
        m->seq1 = NULL; m->seq2 = NULL; m->prof1 = profa; m->prof2 = profb; m->run_parallel = 0; m->sip = 0; m->score = 0.0f;
#endif
        VK_ASSERT(init_alnmem(m) == OK, "init_alnmem succeeds");
        /* step 0 of every plan is the root rectangle with the states init_alnmem just set - checked, not assumed */
        VK_ASSERT(m->starta == STEP[0].sa && m->enda == STEP[0].ea && m->startb == STEP[0].sb && m->endb == STEP[0].eb && st_eq(m->f[0], STEP[0].fp) && st_eq(m->b[0], STEP[0].bp),
                  "plan root = the problem init_alnmem sets up");
        vk_wl_n = 0;
        for (int k = 0; k < VK_NSTEP; k++) {
                m->starta = STEP[k].sa; m->enda = STEP[k].ea; m->startb = STEP[k].sb; m->endb = STEP[k].eb;
                m->f[0] = pat(STEP[k].fp); m->b[0] = pat(STEP[k].bp);
                int n0 = vk_wl_n;
                aln_runner_serial(m);
                VK_ASSERT(vk_wl_n == n0 + 2 && !vk_wl_overflow, "a non-trivial step hands down exactly two sub-problems");
                if (k < VK_NKNOWN) {
                        VK_ASSUME(item_eq(&vk_wl[n0], OUTA[k]) && item_eq(&vk_wl[n0 + 1], OUTB[k]));
                }
#ifdef VK_ENUM
                else {
                        for (int q = 0; q < VK_NBLOCK; q++) VK_ASSUME(!(item_eq(&vk_wl[n0], BLKA[q]) && item_eq(&vk_wl[n0 + 1], BLKB[q])));
                        /* boundary states handed down are always one of the constant patterns */
                        {
                                const struct vk_item *A = &vk_wl[n0], *B = &vk_wl[n0 + 1];
                                int pa1 = pat_of(A->f0), pa2 = pat_of(A->b0), pb1 = pat_of(B->f0), pb2 = pat_of(B->b0);
                                int okp = (pa1 == 1 || pa1 == 2 || pa1 == 4) && (pa2 == 1 || pa2 == 2 || pa2 == 4) && (pb1 == 1 || pb1 == 2 || pb1 == 4) && (pb2 == 1 || pb2 == 2 || pb2 == 4);
                                VK_ASSERT(okp, "C07: boundary states handed to sub-problems are the 0/-FLT_MAX patterns");
                                /* sub-rectangles stay inside the parent and make progress (termination of the recursion) */
                                int a_in = A->starta >= STEP[k].sa && A->enda <= STEP[k].ea && A->startb >= STEP[k].sb && A->endb <= STEP[k].eb;
                                int b_in = B->starta >= STEP[k].sa && B->enda <= STEP[k].ea && B->startb >= STEP[k].sb && B->endb <= STEP[k].eb;
                                int smaller = (A->enda - A->starta) < (STEP[k].ea - STEP[k].sa) && (B->enda - B->starta) < (STEP[k].ea - STEP[k].sa);
                                VK_ASSERT(a_in && b_in && smaller, "C07/C05: sub-problems lie inside the parent rectangle and are strictly smaller");
                        }
                }
#endif
        }
#ifdef VK_ENUM
        /* any model of this point is one more outcome of the last step (read from the trace by the driver) */
        {
                const struct vk_item *A = &vk_wl[vk_wl_n - 2], *B = &vk_wl[vk_wl_n - 1];
                vk_out[0] = A->starta; vk_out[1] = A->enda; vk_out[2] = A->startb; vk_out[3] = A->endb;
                vk_out[4] = pat_of(A->f0); vk_out[5] = pat_of(A->b0);
                vk_out[6] = B->starta; vk_out[7] = B->enda; vk_out[8] = B->startb; vk_out[9] = B->endb;
                vk_out[10] = pat_of(B->f0); vk_out[11] = pat_of(B->b0);
        }
        VK_ASSERT(0, "VK_ENUM another outcome exists");
#else
        VK_ASSERT(vk_path_valid(m->path, VK_LA, VK_LB, VK_LA), "C07/C01: the DP returns a valid path (contract of the path-completion code)");
        if (vk_path_valid(m->path, VK_LA, VK_LB, VK_LA)) {
#if VK_KERNEL >= 2
                const float F = (float)(VK_KA * (VK_KERNEL == 3 ? VK_KB : 1));
                static float flatS[23 * 23]; static float *rowsS[23];
                for (int i = 0; i < 23; i++) { rowsS[i] = &flatS[23 * i]; for (int j = 0; j < 23; j++) flatS[23 * i + j] = F * flat[23 * i + j]; }
                float hi = oracle_hi_path(rowsS, F * apc.gpo, F * apc.gpe, F * apc.tgpe, a, VK_LA, b, VK_LB, m->path);
                float lo = oracle_lo_opt(rowsS, F * apc.gpo, F * apc.gpe, F * apc.tgpe, a, VK_LA, b, VK_LB);
                float tol = (VK_TYPE == KALIGN_TYPE_RNA) ? 0.06f * F : 0.011f;
#else
                float hi = oracle_hi_path(rows, apc.gpo, apc.gpe, apc.tgpe, a, VK_LA, b, VK_LB, m->path);
                float lo = oracle_lo_opt(rows, apc.gpo, apc.gpe, apc.tgpe, a, VK_LA, b, VK_LB);
                float tol = (VK_TYPE == KALIGN_TYPE_RNA) ? 0.06f : 0.011f;
#endif
#ifdef VK_GPO
                tol += 2.0f * apc.gpo;   /* user penalties: the property's safe margin 2*gpo (the tight bracket is validated for the five default sets only) */
#endif
                VK_ASSERT(hi + tol >= lo, "C07: the returned alignment is within the safe margin of the full-matrix optimum");
#ifdef VK_EQUAL
                for (int i = 1; i <= VK_LA; i++) VK_ASSERT(m->path[i] == i, "C08: identical sequences are aligned on the diagonal (no gap)");
#endif
        }
#endif
        VK_END();
}
