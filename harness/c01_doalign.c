/* C01-O3 / C10: one merge of the progressive alignment through the real do_align (lib/src/aln_run.c, included for the
 * static function), real make_profile_n / set_gap_penalties_n / update_n / add_gap_info_to_path_n / mirror_path_n
 * (aln_setup.c), real make_seq / update_gaps (weave_alignment.c).  The DP itself (aln_runner) is replaced by a stub
 * that returns an ARBITRARY VALID path for whatever problem it is handed and records that problem.
 * concrete: VK_GA, VK_GB (members of the two nodes, 1 = a single sequence), VK_LENA, VK_LENB (row length of node a / b:
 *           sequence length for a leaf, profile length for a group), VK_LAST (this merge is the last task or not).
 * symbolic: residues classes, members' gap vectors (row invariant), the path the DP returns, and the STALE state of the
 *           output node c (sip[c] may be NULL or a left-over list, nsip[c]/plen[c] arbitrary - as left behind when
 *           kalign_essential_input_check lowers numseq after set_sip_nsip).
 * assert: do_align succeeds; the DP was handed the right operands; node c has plen = merged length, nsip = sum,
 *         sip = each member of a and b exactly once; every member row has the merged length (C01); members of other
 *         nodes are untouched (C10); input profiles are released and the output profile exists.
 */
#include "vk.h"
#include "tldevel.h"
#include <stdlib.h>
#include "vk_msa.h"
#include "vk_path.h"
#define aln_runner vk_aln_runner_stub_decl
#include "aln_controller.h"
#undef aln_runner
struct aln_mem;
static int aln_runner(struct aln_mem *m);
#include "aln_run.c"

#define NLEAF (VK_GA + VK_GB + 1)          /* one bystander sequence that must not be touched */
#define A_ID (VK_GA == 1 ? 0 : NLEAF)
#define B_ID (VK_GB == 1 ? VK_GA : (VK_GA == 1 ? NLEAF : NLEAF + 1))
#define C_ID (NLEAF + 2)
#define NPROF (2 * NLEAF - 1 + 2)
#define LMAXM 2                             /* residues per member of a group */

static struct { const uint8_t *seq1, *seq2; const float *prof1, *prof2; int len_a, len_b, sip, calls; } rec;
static int vb = 0;

static struct msa *g_msa; static float **g_prof;
static void check_operands(void)
{
        struct msa *msa = g_msa;
        VK_ASSERT(rec.calls == 1, "C07: exactly one DP per merge");
        if (VK_GA == 1 && VK_GB == 1) {
                VK_ASSERT(rec.prof1 == NULL && rec.prof2 == NULL && rec.len_a <= rec.len_b, "C07: sequence-sequence DP gets the shorter sequence first");
                VK_ASSERT((rec.seq1 == msa->sequences[0]->s && rec.seq2 == msa->sequences[1]->s && rec.len_a == VK_LENA && rec.len_b == VK_LENB) ||
                          (rec.seq1 == msa->sequences[1]->s && rec.seq2 == msa->sequences[0]->s && rec.len_a == VK_LENB && rec.len_b == VK_LENA), "C07: the two sequences of this merge are aligned");
        } else if (VK_GA > 1 && VK_GB > 1) {
                VK_ASSERT(rec.seq1 == NULL && rec.seq2 == NULL && rec.prof1 != NULL && rec.prof2 != NULL && rec.len_a <= rec.len_b, "C07: profile-profile DP gets the shorter profile first");
        } else {
                VK_ASSERT(rec.seq1 == NULL && rec.prof2 == NULL && rec.prof1 != NULL && rec.seq2 != NULL, "C07: sequence-profile DP gets the profile and the sequence");
                VK_ASSERT(rec.sip == (VK_GA > 1 ? VK_GA : VK_GB), "C07: profile group size handed to the DP");
        }
        /* the profiles handed to the DP carry gap entries scaled by the size of the OTHER operand (set_gap_penalties_n) */
        for (int side = 0; side < 2; side++) {
                const float *p = side == 0 ? rec.prof1 : rec.prof2;
                if (p == NULL) continue;
                VK_ASSERT(p == g_prof[A_ID] || p == g_prof[B_ID], "C07: a profile handed to the DP is the stored profile of one of the two nodes");
                int other = (p == g_prof[A_ID]) ? VK_GB : VK_GA;
                int len = side == 0 ? rec.len_a : rec.len_b;
                for (int c = 0; c <= 4; c++) if (c <= len + 1) for (int e = 0; e < 3; e++) {
                        float stored = p[64 * c + 55 + e];
                        VK_ASSERT(stored != stored || p[64 * c + 27 + e] == stored * (float)other, "C07/C09: gap entries of a profile = its stored penalties times the size of the other operand");
                }
        }
}

static int aln_runner(struct aln_mem *m)
{
        rec.seq1 = m->seq1; rec.seq2 = m->seq2; rec.prof1 = m->prof1; rec.prof2 = m->prof2;
        rec.len_a = m->len_a; rec.len_b = m->len_b; rec.sip = m->sip; rec.calls++;
#ifdef VK_OPERANDS_ONLY
        /* operand hand-over instances: everything do_align does AFTER the DP call (profile update, weaving) is cut - the
         * operand assertions are made here and the path ends (do_align ignores the DP's return value, so failing is no cut) */
        check_operands();
#ifndef VK_NO_WITNESS
        __CPROVER_assert(0, "VK_WITNESS reachability witness (must fail)");
#endif
#ifdef VK_NATIVE
        printf("VK: harness finished, all assertions held\n"); exit(0);
#else
        __CPROVER_assume(0);
#endif
#endif
        /* the path for the problem (len_a x len_b) it was handed: concrete per instance (VK_PATH_INIT), every valid path
         * being enumerated by the driver - a symbolic path length would make the size of the output profile symbolic */
        static const int P[] = VK_PATH_INIT;
        VK_ASSERT(m->len_a == VK_PLA && m->len_b == VK_PLB, "harness: the DP is handed the problem size the driver predicted");
        for (int i = 1; i <= 4; i++) if (i <= m->len_a) m->path[i] = P[i];
        VK_ASSERT(vk_path_valid(m->path, m->len_a, m->len_b, 4), "harness: enumerated path is valid");
        return OK;
}

static int rowlen(struct msa_seq *q) { int s = q->len; for (int k = 0; k <= LMAXM; k++) if (k <= q->len) s += q->gaps[k]; return s; }

VK_MAIN()
{
        VK_INIT();
        struct msa *msa = vk_mk_msa(NLEAF, 4);
        msa->numseq = NLEAF; msa->num_profiles = NPROF;
        static int *sip[NPROF]; static int nsip[NPROF]; static int plen[NPROF];
        msa->sip = sip; msa->nsip = nsip; msa->plen = plen;
        struct aln_tasks tk; struct task t0; struct task *tl[1] = {&t0}; static float *prof[NPROF];
        tk.list = tl; tk.profile = prof; tk.n_alloc_tasks = NLEAF;
#ifdef VK_LAST
        tk.n_tasks = 1;
#else
        tk.n_tasks = 2;
#endif
        t0.a = A_ID; t0.b = B_ID; t0.c = C_ID;
        /* leaves */
        for (int s = 0; s < NLEAF; s++) {
                sip[s] = malloc(sizeof(int)); __CPROVER_assume(sip[s] != NULL); sip[s][0] = s; nsip[s] = 1; plen[s] = 0;
                int l = (s < VK_GA) ? (VK_GA == 1 ? VK_LENA : LMAXM) : (s < VK_GA + VK_GB) ? (VK_GB == 1 ? VK_LENB : LMAXM) : 1;
                if (s < VK_GA && VK_GA > 1 && s > 0) { l = 1 + (vin.b[vb++] & 1); }
                if (s >= VK_GA && s < VK_GA + VK_GB && VK_GB > 1 && s > VK_GA) { l = 1 + (vin.b[vb++] & 1); }
                msa->sequences[s]->len = l;
                for (int k = 0; k < 4; k++) { uint8_t c = vin.b[vb++]; VK_ASSUME(c < 23); msa->sequences[s]->s[k] = c; }
        }
        /* groups: members with gap vectors satisfying the row invariant */
        if (VK_GA > 1) {
                sip[A_ID] = malloc(sizeof(int) * VK_GA); __CPROVER_assume(sip[A_ID] != NULL);
                for (int k = 0; k < VK_GA; k++) sip[A_ID][k] = k;
                nsip[A_ID] = VK_GA; plen[A_ID] = VK_LENA;
                prof[A_ID] = malloc(sizeof(float) * 64 * (VK_LENA + 2)); __CPROVER_assume(prof[A_ID] != NULL);
                for (int k = 0; k < VK_GA; k++) {
                        struct msa_seq *q = msa->sequences[k];
                        for (int g = 0; g <= LMAXM; g++) { int x = vin.b[vb++]; VK_ASSUME(x <= VK_LENA); q->gaps[g] = g <= q->len ? x : 0; }
                        VK_ASSUME(rowlen(q) == VK_LENA);
                }
        }
        if (VK_GB > 1) {
                sip[B_ID] = malloc(sizeof(int) * VK_GB); __CPROVER_assume(sip[B_ID] != NULL);
                for (int k = 0; k < VK_GB; k++) sip[B_ID][k] = VK_GA + k;
                nsip[B_ID] = VK_GB; plen[B_ID] = VK_LENB;
                prof[B_ID] = malloc(sizeof(float) * 64 * (VK_LENB + 2)); __CPROVER_assume(prof[B_ID] != NULL);
                for (int k = 0; k < VK_GB; k++) {
                        struct msa_seq *q = msa->sequences[VK_GA + k];
                        for (int g = 0; g <= LMAXM; g++) { int x = vin.b[vb++]; VK_ASSUME(x <= VK_LENB); q->gaps[g] = g <= q->len ? x : 0; }
                        VK_ASSUME(rowlen(q) == VK_LENB);
                }
        }
        /* stale state of the output node */
        if (vin.b[vb++] & 1) { sip[C_ID] = malloc(sizeof(int)); __CPROVER_assume(sip[C_ID] != NULL); sip[C_ID][0] = NLEAF - 1; } else sip[C_ID] = NULL;
        nsip[C_ID] = vin.b[vb++] & 1; plen[C_ID] = vin.i[0];
        prof[C_ID] = NULL;
        /* scoring parameters: values are irrelevant for the bookkeeping, only read */
        static float flat[23 * 23]; static float *rows[23];
        for (int i = 0; i < 23; i++) rows[i] = &flat[23 * i];
        struct aln_param ap; ap.subm = rows; ap.gpo = vin.f[0]; ap.gpe = vin.f[1]; ap.tgpe = vin.f[2]; ap.nthreads = 1; ap.score = 0;
        struct aln_mem *m = NULL;
        VK_ASSERT(alloc_aln_mem(&m, 16) == OK, "alloc_aln_mem succeeds");
        m->ap = &ap; m->mode = ALN_MODE_FULL;
        int by_gaps_before = msa->sequences[NLEAF - 1]->gaps[0];

        g_msa = msa; g_prof = prof;
        int rc = do_align(msa, &tk, m, 0);

        VK_ASSERT(rc == OK, "C01/C10: the merge step succeeds (its result is not checked by the caller, so a failure here is silent)");
        VK_ASSERT(rec.calls == 1, "C07: exactly one DP per merge");
        /* operands handed to the DP */
        if (VK_GA == 1 && VK_GB == 1) {
                VK_ASSERT(rec.prof1 == NULL && rec.prof2 == NULL && rec.len_a <= rec.len_b, "C07: sequence-sequence DP gets the shorter sequence first");
                VK_ASSERT((rec.seq1 == msa->sequences[0]->s && rec.seq2 == msa->sequences[1]->s && rec.len_a == VK_LENA && rec.len_b == VK_LENB) ||
                          (rec.seq1 == msa->sequences[1]->s && rec.seq2 == msa->sequences[0]->s && rec.len_a == VK_LENB && rec.len_b == VK_LENA), "C07: the two sequences of this merge are aligned");
        } else if (VK_GA > 1 && VK_GB > 1) {
                VK_ASSERT(rec.seq1 == NULL && rec.seq2 == NULL && rec.prof1 != NULL && rec.prof2 != NULL && rec.len_a <= rec.len_b, "C07: profile-profile DP gets the shorter profile first");
        } else {
                VK_ASSERT(rec.seq1 == NULL && rec.prof2 == NULL && rec.prof1 != NULL && rec.seq2 != NULL, "C07: sequence-profile DP gets the profile and the sequence");
                VK_ASSERT(rec.sip == (VK_GA > 1 ? VK_GA : VK_GB), "C07: profile group size handed to the DP");
        }
        int pl = plen[C_ID];
        VK_ASSERT(pl >= (VK_LENA > VK_LENB ? VK_LENA : VK_LENB) && pl <= VK_LENA + VK_LENB, "C01: merged length between max and sum of the inputs");
        VK_ASSERT(nsip[C_ID] == VK_GA + VK_GB, "C10: the merged node lists all members");
        int cnt[NLEAF];
        for (int s = 0; s < NLEAF; s++) cnt[s] = 0;
        for (int k = 0; k < VK_GA + VK_GB; k++) { int id = sip[C_ID][k]; VK_ASSERT(id >= 0 && id < VK_GA + VK_GB, "C10: member ids of the merged node"); if (id >= 0 && id < NLEAF) cnt[id]++; }
        for (int s = 0; s < VK_GA + VK_GB; s++) {
                VK_ASSERT(cnt[s] == 1, "C10: every member of both inputs is in the merged node exactly once");
                VK_ASSERT(rowlen(msa->sequences[s]) == pl, "C01: every member row has the merged length");
        }
        VK_ASSERT(msa->sequences[NLEAF - 1]->gaps[0] == by_gaps_before && rowlen(msa->sequences[NLEAF - 1]) == 1 + by_gaps_before, "C10: sequences outside the merge are not touched");
        VK_ASSERT(prof[A_ID] == NULL && prof[B_ID] == NULL && prof[C_ID] != NULL, "C16: input profiles released, output profile stored");
        VK_END();
}
