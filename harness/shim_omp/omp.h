/* shim <omp.h> for the C02 harnesses: the OpenMP runtime is replaced by the task model of vk_omp.h */
#ifndef VK_SHIM_OMP_H
#define VK_SHIM_OMP_H
static inline void omp_set_num_threads(int n) { (void)n; }
static inline int omp_get_thread_num(void) { return 0; }
static inline int omp_get_num_threads(void) { return 1; }
#endif
