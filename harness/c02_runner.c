/* C02-O1b: the parallel Hirschberg step.  The real aln_runner (lib/src/aln_controller.c) with its OpenMP task pragmas
 * rewritten mechanically into CBMC threads (vk/omp.py -> gen_aln_controller_omp.c, regenerated on every run), on a
 * rectangle of >= 500 rows so that the parallel branch is taken, for each kernel family (VK_KIND 1 sequence-sequence,
 * 2 profile-profile, 3 sequence-profile) and run_parallel in {0,1} (symbolic).  The nine kernel entry points are recorders.
 * CBMC explores all interleavings of the forward and backward tasks.
 * assert: the meet-in-the-middle step starts only after BOTH halves have finished; each half runs exactly once; the halves
 * work on the rectangle halves the controller set up ([starta,mid) forward, [mid,enda) backward); the recursion gets the
 * rectangle's coordinates and its six (symbolic, pairwise distinct) boundary states in aln_continue's order.
 */
#include "vk.h"
#include "tldevel.h"
#include <float.h>
#include "gen_aln_controller_omp.c"

int vk_pending[VK_MAX_FRAMES];
int vk_nframes = 0;

static int fwd_started, fwd_done, bwd_started, bwd_done, meet_calls, meet_early, fwd_rows_ok, bwd_rows_ok, wrong_kind;
#define FWD(name, kind) int name(struct aln_mem *m) { __CPROVER_atomic_begin(); fwd_started++; if (VK_KIND != kind) wrong_kind = 1; fwd_rows_ok = (m->starta == 0 && m->enda == VK_ROWS / 2); __CPROVER_atomic_end(); __CPROVER_atomic_begin(); fwd_done++; __CPROVER_atomic_end(); return OK; }
#define BWD(name, kind) int name(struct aln_mem *m) { __CPROVER_atomic_begin(); bwd_started++; if (VK_KIND != kind) wrong_kind = 1; bwd_rows_ok = (m->starta_2 == VK_ROWS / 2 && m->enda_2 == VK_ROWS); __CPROVER_atomic_end(); __CPROVER_atomic_begin(); bwd_done++; __CPROVER_atomic_end(); return OK; }
#define MEET(name, kind) int name(struct aln_mem *m, int old_cor[], int *meet, int *t, float *score) { (void)m; (void)old_cor; __CPROVER_atomic_begin(); meet_calls++; if (VK_KIND != kind) wrong_kind = 1; if (!(fwd_done == 1 && bwd_done == 1)) meet_early = 1; __CPROVER_atomic_end(); *meet = 1; *t = 1; *score = 0.0f; return OK; }
FWD(aln_seqseq_foward, 1) BWD(aln_seqseq_backward, 1) MEET(aln_seqseq_meetup, 1)
FWD(aln_profileprofile_foward, 2) BWD(aln_profileprofile_backward, 2) MEET(aln_profileprofile_meetup, 2)
FWD(aln_seqprofile_foward, 3) BWD(aln_seqprofile_backward, 3) MEET(aln_seqprofile_meetup, 3)

/* the recursion on the two sub-rectangles is C07's subject; here it is cut (goto-instrument --replace-calls): reads of the
 * shared aln_mem inside a multi-threaded run are symbolic for CBMC, so the SCORE_ONLY test alone would not stop symex */
static int cont_calls = 0, states_ok = 0, cor_ok = 0;
static float want_states[6];
int vk_continue_stub(struct aln_mem *m, float input_states[], int old_cor[], int meet, int transition, uint8_t serial)
{ (void)m; (void)meet; (void)transition; (void)serial; __CPROVER_atomic_begin(); cont_calls++; if (!(fwd_done == 1 && bwd_done == 1 && meet_calls == 1)) meet_early = 1;
  /* C07: the recursion restores the rectangle's boundary states from this array - same layout as in aln_runner_serial
   * (forward a, ga, gb, backward a, ga, gb), which C07's decision split checks with data */
  states_ok = 1; for (int k = 0; k < 6; k++) if (!(input_states[k] == want_states[k])) states_ok = 0;
  cor_ok = (old_cor[0] == 0 && old_cor[1] == VK_ROWS && old_cor[2] == 0 && old_cor[3] == 3 && old_cor[4] == VK_ROWS / 2);
  __CPROVER_atomic_end(); return OK; }

VK_MAIN()
{
        VK_INIT();
        static struct aln_mem m; static struct states f[4], b[4]; static int path[8];
        static const uint8_t s1[1] = {0}; static const float p1[1] = {0.0f};
        m.f = f; m.b = b; m.path = path; m.tmp_path = path;
        m.seq1 = VK_KIND == 1 ? s1 : NULL; m.seq2 = VK_KIND == 2 ? NULL : s1;
        m.prof1 = VK_KIND == 1 ? NULL : p1; m.prof2 = VK_KIND == 2 ? p1 : NULL;
        m.starta = 0; m.enda = VK_ROWS; m.startb = 0; m.endb = 3; m.len_a = VK_ROWS; m.len_b = 3;
        m.run_parallel = vin.b[0] & 1;
        m.mode = (vin.b[0] & 2) ? ALN_MODE_SCORE_ONLY : ALN_MODE_FULL;
        /* boundary states of the rectangle: six distinct arbitrary finite values (a hand-over that permutes them is visible) */
        for (int k = 0; k < 6; k++) { want_states[k] = vin.f[k]; VK_ASSUME(want_states[k] > -1e30f && want_states[k] < 1e30f); }
        for (int k = 0; k < 6; k++) for (int l = 0; l < k; l++) VK_ASSUME(want_states[k] != want_states[l]);
        f[0].a = want_states[0]; f[0].ga = want_states[1]; f[0].gb = want_states[2];
        b[0].a = want_states[3]; b[0].ga = want_states[4]; b[0].gb = want_states[5];
        int rc = aln_runner(&m);
        VK_ASSERT(rc == OK, "aln_runner returns");
        VK_ASSERT(!wrong_kind, "C07: the kernel family matches the operands");
        VK_ASSERT(fwd_started == 1 && fwd_done == 1 && bwd_started == 1 && bwd_done == 1 && meet_calls == 1, "C02: each half and the combination run exactly once");
        VK_ASSERT(!meet_early, "C02: the forward and backward halves are both finished before they are combined");
        VK_ASSERT(fwd_rows_ok && bwd_rows_ok, "C02: the two halves work on the two halves of the rectangle");
        if (m.mode == ALN_MODE_FULL) VK_ASSERT(cont_calls == 1 && states_ok && cor_ok, "C07: the recursion is handed the rectangle and its six boundary states in the order aln_continue restores them");
        VK_END();
}
