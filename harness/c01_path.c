/* C01-O1: path completion (real add_gap_info_to_path_n / mirror_path_n, lib/src/aln_setup.c).
 * concrete: VK_LA, VK_LB (lengths of the two (groups of) rows); symbolic: the Hirschberg path array.
 * VK_MODE 1: add_gap_info_to_path_n on any valid path (path[i] = -1 or the 1-based partner, strictly increasing).
 * VK_MODE 2: mirror_path_n followed by add_gap_info_to_path_n (the swapped branch of do_align).
 */
#include "vk.h"
#include "tldevel.h"
#include "aln_struct.h"
#include "aln_setup.h"
#include <stdlib.h>
#include "vk_path.h"

#define PLEN (VK_LA + VK_LB + 2)

VK_MAIN()
{
        VK_INIT();
        struct aln_mem mm;
        struct aln_mem *m = &mm;
        m->path = malloc(sizeof(int) * PLEN);
        m->tmp_path = malloc(sizeof(int) * PLEN);
        __CPROVER_assume(m->path && m->tmp_path);
        int want[VK_LA + 2];               /* partner of a-residue i (1-based) or -1 */
#if VK_MODE == 1
        m->len_a = VK_LA; m->len_b = VK_LB;
        int last = 0;
        m->path[0] = vin.i[0];
        for (int i = 1; i <= VK_LA; i++) {
                int v = (int)vin.b[i] - 1;   /* -1 .. */
                if (v == 0) v = -1;
                VK_ASSUME(v == -1 || (v > last && v <= VK_LB));
                if (v != -1) last = v;
                m->path[i] = v; want[i] = v;
        }
        for (int i = VK_LA + 1; i < PLEN; i++) m->path[i] = -1;
        VK_ASSUME(vk_path_valid(m->path, VK_LA, VK_LB, VK_LA));
#else
        /* path as the kernels return it in the swapped case: indexed by b (the shorter side), values in a */
        int last = 0;
        for (int i = 0; i < PLEN; i++) m->path[i] = -1;
        for (int i = 1; i <= VK_LA; i++) want[i] = -1;
        for (int i = 1; i <= VK_LB; i++) {
                int v = (int)vin.b[i] - 1;
                if (v == 0) v = -1;
                VK_ASSUME(v == -1 || (v > last && v <= VK_LA));
                if (v != -1) { last = v; want[v] = i; }
                m->path[i] = v;
        }
        VK_ASSUME(vk_path_valid(m->path, VK_LB, VK_LA, VK_LB));
        m->len_a = VK_LB; m->len_b = VK_LA;
        VK_ASSERT(mirror_path_n(m, VK_LA, VK_LB) == OK, "mirror_path_n succeeds");
        m->len_a = VK_LA; m->len_b = VK_LB;
        for (int i = 1; i <= VK_LA; i++) VK_ASSERT(m->path[i] == want[i], "C01: mirrored path is the inverse matching");
        VK_ASSERT(vk_path_valid(m->path, VK_LA, VK_LB, VK_LA), "C01: mirroring preserves path validity");
#endif
        VK_ASSERT(add_gap_info_to_path_n(m) == OK, "add_gap_info_to_path_n succeeds");
        int *o = m->path;
        int n = o[0];
        VK_ASSERT(n >= (VK_LA > VK_LB ? VK_LA : VK_LB) && n <= VK_LA + VK_LB, "C01: column count between max(len) and len_a+len_b");
        int pa = 0, pb = 0;
        for (int c = 1; c <= VK_LA + VK_LB; c++) {
                if (c <= n) {
                        int v = o[c];
                        VK_ASSERT(v >= 0 && v < 64 && (v & 3) != 3, "C01: column code is aligned / gap-in-a / gap-in-b plus flag bits");
                        if ((v & 3) == 0) {
                                VK_ASSERT(v == 0, "C01: aligned columns carry no flags (make_seq tests !path[c])");
                                pa++; pb++;
                                VK_ASSERT(pa <= VK_LA && want[pa] == pb, "C01: aligned column pairs exactly the residues the DP paired");
                        } else if (v & 1) {
                                pb++;
                        } else {
                                pa++;
                                VK_ASSERT(pa <= VK_LA && want[pa] == -1, "C01: a residue is opposite a gap exactly when the DP left it unpaired");
                        }
                }
        }
        VK_ASSERT(pa == VK_LA && pb == VK_LB, "C01: every residue of both sides appears exactly once");
        VK_ASSERT(o[n + 1] == 3, "C01: column string is terminated");
        VK_END();
}
