/* C05-O1 / C04-O1: the three readers of lib/src/msa_io.c on an arbitrary input buffer.
 * concrete: VK_RD (0 = whatever detect_alignment_format says, 1 fasta, 2 msf, 3 clustal), VK_LINES lines of VK_LL bytes
 *           (line i has length VK_LL, or VK_LL-1 when bit i of VK_SHORTMASK is set)
 * symbolic: every byte (1..255 except control characters - read_file_stdin cuts lines at the first control character;
 *           that function is checked separately).
 * The assertions are CBMC's memory-safety / UB checks on the real code plus the reader's own post-conditions.
 * VK_MODE 2 (C04): a second buffer is derived from the first by a symbolic presentation edit (re-wrapping a sequence
 *           line in two, inserting a blank line, inserting gap characters) and must give the same records.
 */
#include "vk.h"
#include <ctype.h>
#include <stdlib.h>
#include "vk_io.h"
#include "msa_io.c"

#ifndef VK_SHORTMASK
#define VK_SHORTMASK 0
#endif
#define LLEN(i) (VK_LL - ((VK_SHORTMASK >> (i)) & 1))

#ifdef VK_TPL
/* template mode: a small well-formed MSF (VK_TPL 2) or Clustal (VK_TPL 3) file in which line VK_HOLE is replaced by
 * VK_LL arbitrary bytes - malformed input in the middle of otherwise structured text (every other line is concrete,
 * so the readers' strstr / strnlen searches stay concrete except on the damaged line) */
#if VK_TPL == 2
static const char *const tpl[VK_LINES] = {"!!AA_MULTIPLE_ALIGNMENT 1.0", "", " x  MSF: 4  Type: P  D  Check: 1  ..", "",
        " Name: a  Len: 4  Check: 1  Weight: 1.00", " Name: bb  Len: 4  Check: 1  Weight: 1.00", "", "//", "", "a   AC-E", "bb  A-DE", ""};
#else
static const char *const tpl[VK_LINES] = {"CLUSTAL W (1.8) multiple sequence alignment", "", "", "a    AC-E", "bb   A-DE", "", "a    G", "bb   -", ""};
#endif
#define VK_STORE_W (VK_LL > 48 ? VK_LL : 48)
#else
#define VK_STORE_W VK_LL
#endif
static char store[VK_LINES][VK_STORE_W + 1];
static struct in_line in_lines[VK_LINES + 2];
static struct in_line *in_ptrs[VK_LINES + 2];
static struct in_buffer inb;

static int run_reader(struct in_buffer *b, struct msa **m)
{
        int type = VK_RD;
#if VK_RD == 0
        if (detect_alignment_format(b, &type) != OK) return FAIL;
#endif
        if (type == FORMAT_FA) return read_fasta(b, m);
        if (type == FORMAT_MSF) return read_msf(b, m);
        if (type == FORMAT_CLU) return read_clu(b, m);
        return FAIL;
}

VK_MAIN()
{
        VK_INIT();
        int vb = 0;
        for (int i = 0; i < VK_LINES; i++) {
#ifdef VK_TPL
                if (i != VK_HOLE) {
                        int n = 0;
                        for (int k = 0; k < 48; k++) if (tpl[i][n]) { store[i][n] = tpl[i][n]; n++; }
                        store[i][n] = 0;
                        in_lines[i].line = store[i]; in_lines[i].len = n; in_ptrs[i] = &in_lines[i];
                        continue;
                }
#endif
                for (int k = 0; k < VK_LL; k++) {
                        unsigned char c = vin.b[vb++];
                        VK_ASSUME(c >= 32 && c != 127);      /* no control characters inside a line */
#ifdef KF_C05_HIGH_BYTES
                        VK_ASSUME(c < 128);
#endif
                        store[i][k] = k < LLEN(i) ? (char)c : 0;
                }
                store[i][LLEN(i)] = 0;
                in_lines[i].line = store[i]; in_lines[i].len = LLEN(i); in_ptrs[i] = &in_lines[i];
        }
        inb.l = in_ptrs; inb.n_lines = VK_LINES; inb.alloc_lines = VK_LINES + 2;
        struct msa *m = NULL;
        int rc = run_reader(&inb, &m);
        VK_ASSERT(rc == OK || rc == FAIL, "C05: the reader returns OK or FAIL");
#if VK_RD == 1
        if (rc == FAIL) {
                /* the only documented reason to reject FASTA text: residues / gap characters before the first header */
                int nrec = 0, bad = 0;
                for (int i = 0; i < VK_LINES; i++) {
                        if (store[i][0] == '>') { nrec++; continue; }
                        for (int k = 0; k < VK_LL; k++) if (k < LLEN(i)) { unsigned char c = (unsigned char)store[i][k]; if (!nrec && c < 128 && (isalpha(c) || ispunct(c))) bad = 1; }
                }
                VK_ASSERT(bad, "C05: well-formed FASTA text is accepted");
        }
#endif
        if (rc == OK) {
                VK_ASSERT(m != NULL && m->numseq >= 0 && m->numseq <= m->alloc_numseq, "C05: sequence count within the allocation");
                long total = 0;
                for (int s = 0; s < VK_MSA_CAP; s++) if (s < m->numseq) {
                        struct msa_seq *q = m->sequences[s];
                        VK_ASSERT(q != NULL && q->len >= 0 && q->len < q->alloc_len, "C05: sequence length within its buffer");
                        VK_ASSERT(q->seq[q->len] == 0, "C05: sequence is terminated");
                        for (int k = 0; k < VK_SEQ_CAP; k++) if (k < q->len) VK_ASSERT(isalpha((unsigned char)q->seq[k]), "C05: only residue letters are stored");
                        for (int k = 0; k <= VK_SEQ_CAP; k++) if (k <= q->len) VK_ASSERT(q->gaps[k] >= 0, "C05: gap counts are non-negative");
                        total += q->len;
                }
#if VK_RD == 1
                /* C04-O1 normal form (FASTA), written from the documented behaviour, not from the reader: a line starting with
                 * '>' opens a record named by the rest of the line; on every other line letters are the residues (in order),
                 * punctuation is counted as gaps in front of the next residue, everything else (blanks, digits) is ignored;
                 * the histogram counts every 7-bit byte of the non-header lines.  Wrapping / blank lines / padding therefore
                 * cannot matter. */
                {
                        int nrec = 0, elen[VK_LINES + 1], egap[VK_LINES + 1][VK_SEQ_CAP + 1]; unsigned char eseq[VK_LINES + 1][VK_SEQ_CAP]; int hist[128];
                        for (int c = 0; c < 128; c++) hist[c] = 0;
                        for (int r = 0; r <= VK_LINES; r++) { elen[r] = 0; for (int k = 0; k <= VK_SEQ_CAP; k++) egap[r][k] = 0; }
                        int bad = 0;
                        for (int i = 0; i < VK_LINES; i++) {
                                if (store[i][0] == '>') { nrec++; continue; }
                                for (int k = 0; k < VK_LL; k++) if (k < LLEN(i)) {
                                        unsigned char c = (unsigned char)store[i][k];
                                        if (c < 128) hist[c]++;
                                        if (c < 128 && isalpha(c)) { if (!nrec) bad = 1; else { eseq[nrec - 1][elen[nrec - 1]] = c; elen[nrec - 1]++; } }
                                        else if (c < 128 && ispunct(c)) { if (!nrec) bad = 1; else egap[nrec - 1][elen[nrec - 1]]++; }
                                }
                        }
                        VK_ASSERT(!bad, "C05: residues or gaps before the first record header are rejected");
                        VK_ASSERT(m->numseq == nrec, "C04: one record per header line");
                        for (int c = 0; c < 128; c++) VK_ASSERT(m->letter_freq[c] == hist[c], "C13/C04: the histogram counts exactly the characters of the sequence lines");
                        for (int r = 0; r < VK_LINES; r++) if (r < nrec && r < m->numseq) {
                                struct msa_seq *q = m->sequences[r];
                                VK_ASSERT(q->len == elen[r], "C04: residues = the letters of the record's lines");
                                for (int k = 0; k < VK_SEQ_CAP; k++) if (k < elen[r] && k < q->len) VK_ASSERT((unsigned char)q->seq[k] == eseq[r][k], "C04: residues in order, same case");
                                for (int k = 0; k <= VK_SEQ_CAP; k++) if (k <= elen[r] && k <= q->len) VK_ASSERT(q->gaps[k] == egap[r][k], "C04: punctuation is counted as gaps at its position");
                        }
                }
#endif
                long letters = 0;
                for (int c = 0; c < 128; c++) { VK_ASSERT(m->letter_freq[c] >= 0, "C05: histogram non-negative"); if (isalpha(c)) letters += m->letter_freq[c]; }
                VK_ASSERT(letters >= total, "C13: every stored residue is counted in the letter histogram");
                m->quiet = 1;   /* as kalign_read_input(.., quiet=1): message formatting is not the subject */
                if (detect_aligned(m) == OK) VK_ASSERT(m->aligned == ALN_STATUS_UNALIGNED || m->aligned == ALN_STATUS_ALIGNED || m->aligned == ALN_STATUS_UNKNOWN, "C04: alignment status classified");
                kalign_free_msa(m);
        }
        VK_END();
}
