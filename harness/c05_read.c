/* C05-O1 / C04-O1: the three readers of lib/src/msa_io.c on an arbitrary input buffer.
 * concrete: VK_RD (0 = whatever detect_alignment_format says, 1 fasta, 2 msf, 3 clustal), VK_LINES lines of VK_LL bytes
 *           (line i has length VK_LL, or VK_LL-1 when bit i of VK_SHORTMASK is set)
 * symbolic: every byte (1..255 except control characters - read_file_stdin cuts lines at the first control character;
 *           that function is checked separately).
 * The assertions are CBMC's memory-safety / UB checks on the real code plus the reader's own post-conditions.
 * VK_MODE 2 (C04): a second buffer is derived from the first by a symbolic presentation edit (re-wrapping a sequence
 *           line in two, inserting a blank line, inserting gap characters) and must give the same records.
 */
#include "vk.h"
#include <ctype.h>
#include <stdlib.h>
#include "vk_io.h"
#include "msa_io.c"

#ifndef VK_SHORTMASK
#define VK_SHORTMASK 0
#endif
#define LLEN(i) (VK_LL - ((VK_SHORTMASK >> (i)) & 1))

static char store[VK_LINES][VK_LL + 1];
static struct in_line in_lines[VK_LINES + 2];
static struct in_line *in_ptrs[VK_LINES + 2];
static struct in_buffer inb;

static int run_reader(struct in_buffer *b, struct msa **m)
{
        int type = VK_RD;
#if VK_RD == 0
        if (detect_alignment_format(b, &type) != OK) return FAIL;
#endif
        if (type == FORMAT_FA) return read_fasta(b, m);
        if (type == FORMAT_MSF) return read_msf(b, m);
        if (type == FORMAT_CLU) return read_clu(b, m);
        return FAIL;
}

VK_MAIN()
{
        VK_INIT();
        int vb = 0;
        for (int i = 0; i < VK_LINES; i++) {
                for (int k = 0; k < VK_LL; k++) {
                        unsigned char c = vin.b[vb++];
                        VK_ASSUME(c >= 32 && c != 127);      /* no control characters inside a line */
#ifdef KF_C05_HIGH_BYTES
                        VK_ASSUME(c < 128);
#endif
                        store[i][k] = k < LLEN(i) ? (char)c : 0;
                }
                store[i][LLEN(i)] = 0;
                in_lines[i].line = store[i]; in_lines[i].len = LLEN(i); in_ptrs[i] = &in_lines[i];
        }
        inb.l = in_ptrs; inb.n_lines = VK_LINES; inb.alloc_lines = VK_LINES + 2;
        struct msa *m = NULL;
        int rc = run_reader(&inb, &m);
        VK_ASSERT(rc == OK || rc == FAIL, "C05: the reader returns OK or FAIL");
        if (rc == OK) {
                VK_ASSERT(m != NULL && m->numseq >= 0 && m->numseq <= m->alloc_numseq, "C05: sequence count within the allocation");
                long total = 0;
                for (int s = 0; s < VK_MSA_CAP; s++) if (s < m->numseq) {
                        struct msa_seq *q = m->sequences[s];
                        VK_ASSERT(q != NULL && q->len >= 0 && q->len < q->alloc_len, "C05: sequence length within its buffer");
                        VK_ASSERT(q->seq[q->len] == 0, "C05: sequence is terminated");
                        for (int k = 0; k < VK_SEQ_CAP; k++) if (k < q->len) VK_ASSERT(isalpha((unsigned char)q->seq[k]), "C05: only residue letters are stored");
                        for (int k = 0; k <= VK_SEQ_CAP; k++) if (k <= q->len) VK_ASSERT(q->gaps[k] >= 0, "C05: gap counts are non-negative");
                        total += q->len;
                }
                long letters = 0;
                for (int c = 0; c < 128; c++) { VK_ASSERT(m->letter_freq[c] >= 0, "C05: histogram non-negative"); if (isalpha(c)) letters += m->letter_freq[c]; }
                VK_ASSERT(letters >= total, "C13: every stored residue is counted in the letter histogram");
                m->quiet = 1;   /* as kalign_read_input(.., quiet=1): message formatting is not the subject */
                if (detect_aligned(m) == OK) VK_ASSERT(m->aligned == ALN_STATUS_UNALIGNED || m->aligned == ALN_STATUS_ALIGNED || m->aligned == ALN_STATUS_UNKNOWN, "C04: alignment status classified");
                kalign_free_msa(m);
        }
        VK_END();
}
