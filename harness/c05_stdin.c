/* C05-O1b: read_file_stdin (real lib/src/msa_io.c): the raw-input stage.  getline is a stub delivering VK_LINES lines of
 * VK_LL arbitrary bytes each (any value 1..255, possibly without a trailing newline); fopen/fclose are the tape stubs.
 * alloc_in_buffer (1024 mallocs) is replaced by a stand-in with VK_LINES+2 slots (goto-instrument --replace-calls).
 * assert (besides CBMC's memory checks): one buffered line per getline result, each cut at its first control character,
 * NUL-terminated, with len = number of characters kept - which is what the format readers rely on (C05-O1). */
#include "vk.h"
#include <ctype.h>
#include <stdlib.h>
#include <sys/types.h>
#include <stdio.h>
static unsigned char raw[VK_LINES][VK_LL + 1];
static int gl_calls = 0;
static ssize_t vk_getline(char **lineptr, size_t *n, FILE *stream)
{
        (void)stream;
        if (gl_calls >= VK_LINES) return -1;
        if (*lineptr == NULL) { *lineptr = malloc(VK_LL + 2); __CPROVER_assume(*lineptr != NULL); *n = VK_LL + 2; }
        for (int k = 0; k < VK_LL; k++) (*lineptr)[k] = (char)raw[gl_calls][k];
        (*lineptr)[VK_LL] = 0;
        gl_calls++;
        return VK_LL;
}
#include "vk_io.h"
#define getline vk_getline
#include "msa_io.c"

int vk_alloc_in_buffer(struct in_buffer **buffer, int n)
{
        (void)n;
        struct in_buffer *b = malloc(sizeof(struct in_buffer));
        __CPROVER_assume(b != NULL);
        b->alloc_lines = VK_LINES + 2; b->n_lines = 0;
        b->l = malloc(sizeof(struct in_line *) * (VK_LINES + 2));
        __CPROVER_assume(b->l != NULL);
        for (int i = 0; i < VK_LINES + 2; i++) { b->l[i] = malloc(sizeof(struct in_line)); __CPROVER_assume(b->l[i] != NULL); b->l[i]->line = NULL; b->l[i]->len = 0; }
        *buffer = b;
        return OK;
}

VK_MAIN()
{
        VK_INIT();
        for (int i = 0; i < VK_LINES; i++) for (int k = 0; k < VK_LL; k++) { unsigned char c = vin.b[i * VK_LL + k]; VK_ASSUME(c != 0); raw[i][k] = c; }
        struct in_buffer *b = NULL;
        int rc = read_file_stdin(&b, NULL);
        VK_ASSERT(rc == OK && b != NULL, "C05: reading standard input succeeds");
        VK_ASSERT(b->n_lines == VK_LINES, "C05: one buffered line per input line");
        for (int i = 0; i < VK_LINES; i++) {
                int cut = VK_LL;
                for (int k = VK_LL - 1; k >= 0; k--) if (iscntrl((int)(char)raw[i][k])) cut = k;
                VK_ASSERT(b->l[i]->len == cut, "C05: a line ends at its first control character");
                for (int k = 0; k < VK_LL; k++) if (k < cut) VK_ASSERT((unsigned char)b->l[i]->line[k] == raw[i][k], "C05: characters kept unchanged");
                VK_ASSERT(b->l[i]->line[cut] == 0, "C05: buffered line is terminated");
        }
        free_in_buffer(b);
        VK_END();
}
