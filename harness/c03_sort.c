/* C03-O1: the canonical order (real sort_by_len_name of lib/src/msa_sort.c, qsort model) is a function of the multiset of
 * (length, name) records when names are pairwise distinct.
 * symbolic: lengths, 2-byte names (pairwise distinct), ranks, and the permutation in which the records are supplied.
 *  - comparator: antisymmetric and transitive on distinct records (so every conforming qsort gives the same array)
 *  - sorting the records in the supplied order and in index order gives the same sequence of records
 *  - msa_sort_rank afterwards restores the supplied order
 */
#include "vk.h"
#include "tldevel.h"
#include <stdlib.h>
#include "msa_struct.h"
#include "msa_sort.c"

struct rec { int len; char n0, n1; };

static void mk(struct msa_seq *q, char *namebuf, struct rec r, int rank)
{
        q->len = r.len; q->name = namebuf; q->name[0] = r.n0; q->name[1] = r.n1; q->name[2] = 0; q->rank = rank;
        q->seq = NULL; q->s = NULL; q->gaps = NULL; q->alloc_len = 0;
}

VK_MAIN()
{
        VK_INIT();
        struct rec r[VK_NS];
        int vb = 0;
        for (int i = 0; i < VK_NS; i++) {
                r[i].len = vin.i[i];
                r[i].n0 = (char)vin.b[vb++]; r[i].n1 = (char)vin.b[vb++];
                VK_ASSUME(r[i].n0 != 0);
#ifndef VK_EQNAMES
                for (int j = 0; j < i; j++) VK_ASSUME(r[i].n0 != r[j].n0 || r[i].n1 != r[j].n1);   /* names pairwise distinct */
#endif
        }
#ifdef VK_EQNAMES
        /* C14-O3: records may share name and length; the canonical order must then still be decided without looking at the
         * residue letters (seq is an invalid pointer here): spelling (case, T/U) cannot reach the tree or the DP through it */
        {
                struct msa_seq a, b; char na[3], nb2[3];
                mk(&a, na, r[0], 0); mk(&b, nb2, r[1], 1);
                struct msa_seq *pa = &a, *pb = &b;
                int ab = sort_by_len_name(&pa, &pb);
                VK_ASSERT(ab == 1 || ab == -1, "C14: comparator decides from length and name only");
        }
        VK_END();
#endif
        /* comparator laws on the first three records */
        {
                struct msa_seq a, b, c; char na[3], nb_[3], nc[3];
                mk(&a, na, r[0], 0); mk(&b, nb_, r[1], 1); mk(&c, nc, r[VK_NS > 2 ? 2 : 0], 2);
                struct msa_seq *pa = &a, *pb = &b, *pc = &c;
                int ab = sort_by_len_name(&pa, &pb), ba = sort_by_len_name(&pb, &pa);
                VK_ASSERT(ab == -ba && ab != 0, "C03: comparator is antisymmetric on distinct records");
#if VK_NS > 2
                int bc = sort_by_len_name(&pb, &pc), ac = sort_by_len_name(&pa, &pc);
                if (ab < 0 && bc < 0) VK_ASSERT(ac < 0, "C03: comparator is transitive");
                if (ab > 0 && bc > 0) VK_ASSERT(ac > 0, "C03: comparator is transitive");
#endif
        }
        /* permutation invariance */
        int perm[VK_NS];
        for (int i = 0; i < VK_NS; i++) { perm[i] = vin.b[vb++]; VK_ASSUME(perm[i] < VK_NS); for (int j = 0; j < i; j++) VK_ASSUME(perm[i] != perm[j]); }
        struct msa m1, m2;
        struct msa_seq s1[VK_NS], s2[VK_NS]; struct msa_seq *p1[VK_NS], *p2[VK_NS]; char n1[VK_NS][3], n2[VK_NS][3];
        for (int i = 0; i < VK_NS; i++) {
                mk(&s1[i], n1[i], r[i], i); p1[i] = &s1[i];
                mk(&s2[i], n2[i], r[perm[i]], i); p2[i] = &s2[i];
        }
        m1.sequences = p1; m1.numseq = VK_NS; m2.sequences = p2; m2.numseq = VK_NS;
        VK_ASSERT(msa_sort_len_name(&m1) == OK && msa_sort_len_name(&m2) == OK, "sort succeeds");
        for (int i = 0; i < VK_NS; i++) {
                VK_ASSERT(m1.sequences[i]->len == m2.sequences[i]->len && m1.sequences[i]->name[0] == m2.sequences[i]->name[0] && m1.sequences[i]->name[1] == m2.sequences[i]->name[1],
                          "C03: canonical order does not depend on the order in which the records were supplied");
                if (i) VK_ASSERT(m1.sequences[i - 1]->len >= m1.sequences[i]->len, "C03: canonical order is by decreasing length");
        }
        VK_ASSERT(msa_sort_rank(&m2) == OK, "sort succeeds");
        for (int i = 0; i < VK_NS; i++) VK_ASSERT(m2.sequences[i] == &s2[i], "C03: the caller's order is restored from the ranks");
        VK_END();
}
