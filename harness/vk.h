/* vk.h - common harness conventions.
 *
 * All symbolic inputs of a harness live in the global `vin` (three flat arrays: bytes, ints,
 * floats).  Under CBMC `VK_INIT()` makes them nondeterministic; natively (-DVK_NATIVE) they are
 * loaded from the replay file given as argv[1].  VK_ASSUME / VK_ASSERT map to
 * __CPROVER_assume/__CPROVER_assert or to exit(77)/exit(1).  VK_END() is the reachability witness:
 * an assert(0) that MUST be reported as failing by the solver (vacuity guard).
 */
#ifndef VK_H
#define VK_H
#include <stdint.h>
#include <stddef.h>
#ifndef VK_NB
#define VK_NB 1
#endif
#ifndef VK_NI
#define VK_NI 1
#endif
#ifndef VK_NF
#define VK_NF 1
#endif
struct vin_t { unsigned char b[VK_NB]; int i[VK_NI]; float f[VK_NF]; };
extern struct vin_t vin;

#ifndef VK_NATIVE
struct vin_t nondet_vin(void);
int nondet_int(void);
unsigned char nondet_uchar(void);
float nondet_float(void);
#define VK_MAIN() int main(void)
#define VK_INIT() do { vin = nondet_vin(); } while (0)
#define VK_ASSUME(c) __CPROVER_assume(c)
#define VK_ASSERT(c, msg) __CPROVER_assert((c), msg)
#ifdef VK_NO_WITNESS
#define VK_END() do { return 0; } while (0)
#else
#define VK_END() do { __CPROVER_assert(0, "VK_WITNESS reachability witness (must fail)"); return 0; } while (0)
#endif
#else
#include <stdio.h>
#include <stdlib.h>
void vk_load(int argc, char **argv);
#define VK_MAIN() int main(int argc, char **argv)
#define VK_INIT() vk_load(argc, argv)
#define VK_ASSUME(c) do { if (!(c)) { printf("VK: assumption not satisfied: %s\n", #c); exit(77); } } while (0)
#define VK_ASSERT(c, msg) do { if (!(c)) { printf("VK: ASSERTION VIOLATED: %s  [%s] at %s:%d\n", msg, #c, __FILE__, __LINE__); exit(1); } } while (0)
#define VK_END() do { printf("VK: harness finished, all assertions held\n"); return 0; } while (0)
#define __CPROVER_assume(c) VK_ASSUME(c)
#define __CPROVER_assert(c, m) VK_ASSERT(c, m)
#endif
#endif
