/* C13-O3: detect_alphabet (real lib/src/msa_op.c) reads nothing but the character histogram: with every pointer of the
 * msa object invalid and numseq arbitrary it still runs without a dereference failure, so the kind of sequence cannot
 * depend on the order or naming of the sequences.  symbolic: the histogram (counts 0..10^6), numseq. */
#include "vk.h"
#include "tldevel.h"
#include "msa_struct.h"
#include "msa_op.h"
VK_MAIN()
{
        VK_INIT();
        struct msa m;
        m.sequences = (struct msa_seq **)0; m.sip = (int **)0; m.nsip = (int *)0; m.plen = (int *)0;
        m.numseq = vin.i[128]; m.alloc_numseq = vin.i[129]; m.num_profiles = 0; m.quiet = 1;
        m.biotype = 77; m.L = 0; m.aligned = 0; m.alnlen = 0; m.run_parallel = 0;
        for (int i = 0; i < 128; i++) { VK_ASSUME(vin.i[i] >= 0 && vin.i[i] <= 1000000); m.letter_freq[i] = vin.i[i]; }
        int rc = detect_alphabet(&m);
        (void)rc;   /* the verdict here is CBMC's pointer checks: no object other than the histogram is read */
        for (int i = 0; i < 128; i++) VK_ASSERT(m.letter_freq[i] == vin.i[i], "C13: the histogram is not modified");
        VK_END();
}
