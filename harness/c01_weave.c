/* C01-O2 / C10: one merge step of the progressive alignment, real make_seq / update_gaps
 * (lib/src/weave_alignment.c), from an ARBITRARY valid pre-state (inductive step).
 *
 * concrete (size tuple): VK_GA, VK_GB members in groups a and b; VK_PLA, VK_PLB row lengths of the two
 *   finished sub-alignments; VK_PL columns of the merged alignment; VK_LMAX max residues per member.
 * symbolic: residues per member (1..VK_LMAX), every member's gap vector (satisfying the row invariant),
 *   the column string ("path": 0 aligned, 1 column of b only, 2 column of a only, plus arbitrary flag bits).
 *
 * pre (Inv): for every member x of group g: gaps>=0, len+sum(gaps)==PL(g); no all-gap column inside a group.
 * post: every member has row length PL; gaps only grew; each residue's new column is F_g(old column) where
 *   F_g is the position of the group's k-th column in the merged column string (=> C10: the group's rows
 *   projected onto themselves are unchanged, residues sharing a column still do); no all-gap column.
 */
#include "vk.h"
#include "tldevel.h"
#include "vk_msa.h"
#include "weave_alignment.h"

#define NSEQ (VK_GA + VK_GB)
#define GMAX (VK_LMAX + 1)

static int col_of(const int *gaps, int i) /* column of residue i */
{
        int c = i;
        for (int k = 0; k < GMAX; k++) if (k <= i) c += gaps[k];
        return c;
}

VK_MAIN()
{
        VK_INIT();
        struct msa *m = vk_mk_msa(NSEQ, VK_LMAX + 1);
        m->numseq = NSEQ;
        m->num_profiles = 2 * NSEQ - 1;
        int *sip_store[3]; int nsip[2 * NSEQ]; int plen[2 * NSEQ];
        int sa[VK_GA], sb[VK_GB];
        m->nsip = nsip; m->plen = plen;
        int *sip[2 * NSEQ];
        m->sip = sip;
        const int A = NSEQ, B = NSEQ + 1;      /* node ids of the two groups */
        for (int i = 0; i < VK_GA; i++) sa[i] = i;
        for (int i = 0; i < VK_GB; i++) sb[i] = VK_GA + i;
        sip[A] = sa; sip[B] = sb; nsip[A] = VK_GA; nsip[B] = VK_GB; plen[A] = VK_PLA; plen[B] = VK_PLB;

        int old_gaps[NSEQ][GMAX];
        int len[NSEQ];
        int vb = 0;
        /* ---- arbitrary valid pre-state ---- */
        for (int s = 0; s < NSEQ; s++) {
                int pl = s < VK_GA ? VK_PLA : VK_PLB;
                int l = vin.b[vb++];
                VK_ASSUME(l >= 1 && l <= VK_LMAX && l <= pl);
                len[s] = l;
                m->sequences[s]->len = l;
                int sum = 0;
                for (int k = 0; k < GMAX; k++) {
                        int g = vin.b[vb++];
                        VK_ASSUME(g <= pl);
                        if (k > l) g = 0;
                        old_gaps[s][k] = g;
                        m->sequences[s]->gaps[k] = g;
                        sum += g;
                }
                VK_ASSUME(l + sum == pl);
        }
        /* no all-gap column inside group a / group b */
        for (int c = 0; c < VK_PLA; c++) {
                int occ = 0;
                for (int s = 0; s < VK_GA; s++) for (int i = 0; i < VK_LMAX; i++) if (i < len[s] && col_of(old_gaps[s], i) == c) occ = 1;
                VK_ASSUME(occ);
        }
        for (int c = 0; c < VK_PLB; c++) {
                int occ = 0;
                for (int s = VK_GA; s < NSEQ; s++) for (int i = 0; i < VK_LMAX; i++) if (i < len[s] && col_of(old_gaps[s], i) == c) occ = 1;
                VK_ASSUME(occ);
        }
        /* ---- arbitrary valid column string ---- */
        int path[VK_PL + 2];
        int fa[VK_PLA + 1], fb[VK_PLB + 1];   /* F_a, F_b: group column -> merged column */
        int na = 0, nb = 0;
        path[0] = VK_PL;
        for (int c = 1; c <= VK_PL; c++) {
                int kind = vin.b[vb] & 3, flags = vin.b[vb] & 0x3c; vb++;
                VK_ASSUME(kind != 3);
                path[c] = kind ? (kind | flags) : 0;
                if (kind == 0 || kind == 2) { VK_ASSUME(na < VK_PLA); fa[na++] = c - 1; }
                if (kind == 0 || kind == 1) { VK_ASSUME(nb < VK_PLB); fb[nb++] = c - 1; }
        }
        path[VK_PL + 1] = 3;
        VK_ASSUME(na == VK_PLA && nb == VK_PLB);

        int rc = make_seq(m, A, B, path);

        VK_ASSERT(rc == OK, "make_seq succeeds");
        for (int s = 0; s < NSEQ; s++) {
                int *g = m->sequences[s]->gaps;
                int sum = 0;
                for (int k = 0; k < GMAX; k++) if (k <= len[s]) {
                        VK_ASSERT(g[k] >= old_gaps[s][k], "C10: merging only inserts gaps");
                        sum += g[k];
                }
                VK_ASSERT(m->sequences[s]->len == len[s], "C01: residue count unchanged");
                VK_ASSERT(len[s] + sum == VK_PL, "C01: all rows have the length of the merged alignment");
                for (int i = 0; i < VK_LMAX; i++) if (i < len[s]) {
                        int oc = col_of(old_gaps[s], i), nc = col_of(g, i);
                        int want = s < VK_GA ? fa[oc] : fb[oc];
                        VK_ASSERT(nc == want, "C10: a residue's new column is the image of its old column (whole gap columns only)");
                }
        }
        /* no all-gap column in the merged alignment (stated directly) */
        for (int c = 0; c < VK_PL; c++) {
                int occ = 0;
                for (int s = 0; s < NSEQ; s++) for (int i = 0; i < VK_LMAX; i++) if (i < len[s] && col_of(m->sequences[s]->gaps, i) == c) occ = 1;
                VK_ASSERT(occ, "C01: no column consists of gaps only");
        }
        VK_END();
}
