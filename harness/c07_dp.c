/* C07 / C08-O1: the sequence-sequence DP (real aln_seqseq_foward/backward/meetup, aln_runner_serial, aln_continue,
 * init_alnmem, aln_param_init tables) end to end on two symbolic sequences, IEEE floats bit-precise.
 * concrete: VK_LA <= VK_LB (lengths), VK_BIOTYPE/VK_TYPE (parameter set), VK_NLET (letters used); optional explicit
 *           penalties VK_GPO/VK_GPE/VK_TGPE.
 * symbolic: all residues.
 * assert:  (1) the returned path satisfies the path contract used by C01/C10 (vk_path_valid);
 *          (2) C07: HIGH score of the returned alignment + tol >= LOW optimum of an independent full-matrix DP
 *              (so an alignment that beats every other by more than the safe margin 2*gpo+tol must be returned);
 *          (3) C08 (-DVK_EQUAL): if both sequences are equal the path is the diagonal.
 * The recursion runs through the worklist of c07_push.c.
 */
#include "vk.h"
#include "tldevel.h"
#include <stdlib.h>
#include "kalign/kalign.h"
#include "msa_struct.h"
#include "aln_param.h"
#include "aln_struct.h"
#include "aln_setup.h"
#include "aln_controller.h"
#define VK_LAMAX VK_LA
#define VK_LBMAX VK_LB
#include "vk_dp_oracle.h"
#include "vk_path.h"

struct vk_item { int starta, enda, startb, endb; struct states f0, b0; };
extern struct vk_item vk_wl[];
extern int vk_wl_n, vk_wl_overflow;
#ifndef VK_WL_MAX
#define VK_WL_MAX 8
#endif
#ifndef VK_NLET
#define VK_NLET 4
#endif
static const uint8_t PROTLET[6] = {0, 4, 9, 17, 20, 22};   /* A C I W B X */

VK_MAIN()
{
        VK_INIT();
        struct aln_param *ap = NULL;
        float gpo = -1.0f, gpe = -1.0f, tgpe = -1.0f;
#ifdef VK_GPO
        gpo = VK_GPO; gpe = VK_GPE; tgpe = VK_TGPE;
#endif
        int rc = aln_param_init(&ap, VK_BIOTYPE, 1, VK_TYPE, gpo, gpe, tgpe);
        VK_ASSUME(rc == OK);
        /* compact copy of the selected matrix: one object, 23 row pointers (same values; the kernels only index it) */
        static float flat[23 * 23];
        static float *rows[23];
        for (int i = 0; i < 23; i++) { rows[i] = &flat[23 * i]; for (int j = 0; j < 23; j++) flat[23 * i + j] = ap->subm[i][j]; }
        struct aln_param apc = *ap;
        apc.subm = rows;

        uint8_t a[VK_LA + 1], b[VK_LB + 1];
        for (int i = 0; i < VK_LA; i++) { uint8_t c = vin.b[i]; VK_ASSUME(c < VK_NLET); a[i] = VK_BIOTYPE == ALN_BIOTYPE_PROTEIN ? PROTLET[c] : c; }
        for (int j = 0; j < VK_LB; j++) {
#ifdef VK_EQUAL
                uint8_t c = vin.b[j];
#else
                uint8_t c = vin.b[VK_LA + j];
#endif
                VK_ASSUME(c < VK_NLET); b[j] = VK_BIOTYPE == ALN_BIOTYPE_PROTEIN ? PROTLET[c] : c;
        }
        struct aln_mem mm; struct aln_mem *m = &mm;
        m->size = VK_LB + 2; m->alloc_path_len = VK_LA + VK_LB + 2;
        m->f = malloc(sizeof(struct states) * m->size); m->b = malloc(sizeof(struct states) * m->size);
        m->path = malloc(sizeof(int) * m->alloc_path_len); m->tmp_path = malloc(sizeof(int) * m->alloc_path_len);
        __CPROVER_assume(m->f && m->b && m->path && m->tmp_path);
        m->ap = &apc; m->mode = ALN_MODE_FULL; m->len_a = VK_LA; m->len_b = VK_LB;
        m->seq1 = a; m->seq2 = b; m->prof1 = NULL; m->prof2 = NULL; m->run_parallel = 0; m->sip = 0; m->score = 0.0f;
        VK_ASSERT(init_alnmem(m) == OK, "init_alnmem succeeds");

        /* worklist driver */
        vk_wl_n = 0;
        aln_runner_serial(m);                       /* top-level step: pushes its two sub-problems */
        for (int k = 0; k < VK_WL_MAX; k++) {
                if (k < vk_wl_n) {
                        m->starta = vk_wl[k].starta; m->enda = vk_wl[k].enda; m->startb = vk_wl[k].startb; m->endb = vk_wl[k].endb;
                        m->f[0] = vk_wl[k].f0; m->b[0] = vk_wl[k].b0;
                        aln_runner_serial(m);
                }
        }
        VK_ASSERT(!vk_wl_overflow && vk_wl_n <= VK_WL_MAX, "model limit: Hirschberg worklist bound (recursion unwinding)");
        /* every recorded item was processed: items pushed by the last processed ones must be trivial */
        for (int k = 0; k < VK_WL_MAX; k++) if (k < vk_wl_n) VK_ASSERT(1, "");

        VK_ASSERT(vk_path_valid(m->path, VK_LA, VK_LB, VK_LA), "C07/C01: the DP returns a valid path (contract of the path-completion code)");
        if (vk_path_valid(m->path, VK_LA, VK_LB, VK_LA)) {
                float hi = oracle_hi_path(rows, apc.gpo, apc.gpe, apc.tgpe, a, VK_LA, b, VK_LB, m->path);
                float lo = oracle_lo_opt(rows, apc.gpo, apc.gpe, apc.tgpe, a, VK_LA, b, VK_LB);
                float tol = (VK_TYPE == KALIGN_TYPE_RNA) ? 0.06f : 0.011f;
                VK_ASSERT(hi + tol >= lo, "C07: the returned alignment is within the safe margin of the full-matrix optimum");
#ifdef VK_EQUAL
                for (int i = 1; i <= VK_LA; i++) VK_ASSERT(m->path[i] == i, "C08: identical sequences are aligned on the diagonal (no gap)");
#endif
        }
        VK_END();
}
