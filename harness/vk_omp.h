/* vk_omp.h - OpenMP task model for CBMC (see vk/omp.py for the mechanical source rewrite):
 *   #pragma omp task [if(c)]  S;   ->  VK_SPAWN(k, c, S;)   S runs in a new CBMC thread (deferred task) when c holds,
 *                                       otherwise immediately (undeferred task); the parent frame's pending counter
 *                                       is incremented before the spawn and decremented when S has finished
 *   #pragma omp taskwait           ->  VK_TASKWAIT()        the parent proceeds only when its pending counter is 0
 *   #pragma omp parallel / single  ->  removed              one initial thread, every task its own thread: an
 *                                       over-approximation of every schedule for every thread count (incl. tasks run
 *                                       by the waiting thread at scheduling points, and the no-OpenMP build)
 *   #pragma omp parallel [if(c)] { B } with B not a single construct
 *                                   ->  team region: B runs in the encountering thread AND, when c holds and the
 *                                       (nondeterministic) team has a second member, as a textual copy in a second CBMC
 *                                       thread with its own task frame; implicit barrier at the end.  NOTE: CBMC threads
 *                                       get COPIES of the spawning function's locals - flags that synchronise threads
 *                                       must be globals (vk_team_done[]).
 *   any other #pragma omp          ->  failing "model limit" assertion (never ignored silently)
 * CBMC explores all interleavings (sequential consistency). */
#ifndef VK_OMP_H
#define VK_OMP_H
#ifndef VK_MAX_FRAMES
#define VK_MAX_FRAMES 16
#endif
extern int vk_pending[VK_MAX_FRAMES];
extern int vk_nframes;
static inline int vk_new_frame(void) { __CPROVER_atomic_begin(); int f = vk_nframes++; __CPROVER_atomic_end(); __CPROVER_assert(f < VK_MAX_FRAMES, "model limit: frames"); return f; }
#define VK_FRAME() int vk_frame = vk_new_frame()
#define VK_ENTER() do { __CPROVER_atomic_begin(); vk_pending[vk_frame]++; __CPROVER_atomic_end(); } while (0)
#define VK_LEAVE() do { __CPROVER_atomic_begin(); vk_pending[vk_frame]--; __CPROVER_atomic_end(); } while (0)
#define VK_CAT2(a, b) a##b
#define VK_CAT(a, b) VK_CAT2(a, b)
#define VK_SPAWN(k, cond, ...) do { if (cond) { VK_ENTER(); VK_CAT(__CPROVER_ASYNC_, k): { __VA_ARGS__ VK_LEAVE(); } } else { __VA_ARGS__ } } while (0)
#define VK_TASKWAIT() __CPROVER_assume(vk_pending[vk_frame] == 0)
#endif
