/* C08-O2: the k-means split of a set of INDISTINGUISHABLE sequences (real split2 of lib/src/bisectingKmeans.c, scalar
 * edist_serial of euclidean_dist.c): every sample has the same distance vector to the anchors (symbolic, finite, >= 0).
 * assert: split2 returns two non-empty halves that partition the samples (the 3.4.1 fix: no empty side, no lost or
 * duplicated sequence), within VK_ROUNDS iterations of the refinement loop (unwinding assertion = that bound is proved).
 * concrete: VK_NS samples, VK_NA anchors, VK_SEED seed pick. floats bit-precise (sqrtf: CBMC's exactly rounded model).
 */
#include "vk.h"
#include "tldevel.h"
#include <stdlib.h>
#include "bisectingKmeans.c"

VK_MAIN()
{
        VK_INIT();
        static float row[8];
        static const float *dm[VK_NS];
        static int samples[VK_NS];
        for (int j = 0; j < 8; j++) row[j] = 0.0f;
        for (int j = 0; j < VK_NA; j++) { float v = vin.f[j]; VK_ASSUME(v >= 0.0f && v <= 20000.0f); row[j] = v; }
        for (int i = 0; i < VK_NS; i++) { dm[i] = row; samples[i] = i; }
        struct kmeans_result *res = NULL;
        int rc = split2((const float *const *)dm, samples, VK_NA, VK_NS, VK_SEED, &res);
        VK_ASSERT(rc == OK && res != NULL, "split2 succeeds");
        VK_ASSERT(res->nl >= 1 && res->nr >= 1, "C08: neither side of the split is empty");
        VK_ASSERT(res->nl + res->nr == VK_NS, "C08: the two sides together hold every sample");
        int cnt[VK_NS];
        for (int i = 0; i < VK_NS; i++) cnt[i] = 0;
        for (int i = 0; i < VK_NS; i++) { if (i < res->nl) { int s = res->sl[i]; VK_ASSERT(s >= 0 && s < VK_NS, "sample id"); if (s >= 0 && s < VK_NS) cnt[s]++; } }
        for (int i = 0; i < VK_NS; i++) { if (i < res->nr) { int s = res->sr[i]; VK_ASSERT(s >= 0 && s < VK_NS, "sample id"); if (s >= 0 && s < VK_NS) cnt[s]++; } }
        for (int i = 0; i < VK_NS; i++) VK_ASSERT(cnt[i] == 1, "C08: every sequence is on exactly one side");
        VK_END();
}
