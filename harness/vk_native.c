/* native replay runtime: loads vin from "<kind> <index> <value>" lines */
#include <string.h>
#include "vk.h"
struct vin_t vin;
#ifdef VK_NATIVE
void vk_load(int argc, char **argv)
{
        memset(&vin, 0, sizeof vin);
        if (argc < 2) { fprintf(stderr, "usage: %s vin.txt\n", argv[0]); exit(2); }
        FILE *f = fopen(argv[1], "r");
        if (!f) { perror(argv[1]); exit(2); }
        char k; long idx; long long v;
        while (fscanf(f, " %c %ld %lld", &k, &idx, &v) == 3) {
                if (k == 'b' && idx < VK_NB) vin.b[idx] = (unsigned char)v;
                else if (k == 'i' && idx < VK_NI) vin.i[idx] = (int)v;
                else if (k == 'f' && idx < VK_NF) { uint32_t u = (uint32_t)v; memcpy(&vin.f[idx], &u, 4); }
        }
        fclose(f);
}
#endif
__attribute__((weak)) void kalign_verif_tables(const double *dna, const double *protein) { (void)dna; (void)protein; }
