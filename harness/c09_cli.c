/* C09-O2/O3: the command-line glue of src/run_kalign.c (real code, included for its static functions).
 *  O2  set_aln_type: every documented --type word selects the constant of that name; an arbitrary
 *      string (<= STRLEN bytes, symbolic) is either rejected or mapped to the type whose word it contains.
 *  O3  run_kalign passes param->{nthreads,type,gpo,gpe,tgpe,outfile,format} unchanged to the library calls
 *      (library entry points are recorders answering OK/FAIL arbitrarily); init_param's defaults mean
 *      "not given".
 */
#include "vk.h"
#include <string.h>
/* O4: option parsing in main(): getopt_long_only is a scripted stub delivering up to three options (codes and argument
 * strings symbolic), atof/atoi are uninterpreted per argument string (each argument has its own arbitrary double / int
 * value) - so "the number the user wrote" reaches kalign_run iff main converts the right argument with the right function */
#include <stdlib.h>
#include <unistd.h>
#include <getopt.h>
static int vk_codes[4]; static int vk_pos = 0; static char vk_arg[3][4]; static double vk_dval[3]; static int vk_ival[3];
static int vk_getopt(int argc, char *const argv[], const char *s, const struct option *lo, int *idx)
{
        (void)argv; (void)s; (void)lo; (void)idx;
        if (vk_pos >= 3 || vk_codes[vk_pos] == -1) { optind = 1; return -1; }   /* argv[1] is the first non-option */
        optarg = vk_arg[vk_pos];
        return vk_codes[vk_pos++];
}
static int vk_argidx(const char *p) { return p == vk_arg[0] ? 0 : p == vk_arg[1] ? 1 : p == vk_arg[2] ? 2 : -1; }
static double vk_atof(const char *p) { int k = vk_argidx(p); __CPROVER_assert(k >= 0, "atof on an option argument"); return k >= 0 ? vk_dval[k] : 0.0; }
static int vk_atoi(const char *p) { int k = vk_argidx(p); __CPROVER_assert(k >= 0, "atoi on an option argument"); return k >= 0 ? vk_ival[k] : 0; }
static int vk_isatty(int fd) { (void)fd; return 1; }
#define getopt_long_only vk_getopt
#define atof vk_atof
#define atoi vk_atoi
#define isatty vk_isatty
#define main kalign_cli_main
#include "run_kalign.c"
#undef main
#undef getopt_long_only
#undef atof
#undef atoi
#undef isatty
#include "parameters.c"

#ifndef STRLEN
#define STRLEN 9
#endif

/* ---- recorders standing in for the library ---- */
struct msa { int dummy; };
static struct msa the_msa;
static int n_read, n_run, n_write, n_free, fail_read_at, fail_run, fail_write;
static struct msa *run_msa, *write_msa, *free_msa_arg;
static int run_threads, run_type;
static float run_gpo, run_gpe, run_tgpe;
static char *write_out, *write_fmt;
static char *read_names[4];

int kalign_read_input(char *infile, struct msa **msa, int quiet)
{
        if (n_read < 4) read_names[n_read] = infile;
        n_read++;
        if (fail_read_at == n_read) return FAIL;
        *msa = &the_msa;
        return OK;
}
int kalign_run(struct msa *msa, int n_threads, int type, float gpo, float gpe, float tgpe)
{
        n_run++; run_msa = msa; run_threads = n_threads; run_type = type; run_gpo = gpo; run_gpe = gpe; run_tgpe = tgpe;
        return fail_run ? FAIL : OK;
}
int kalign_write_msa(struct msa *msa, char *outfile, char *format)
{
        n_write++; write_msa = msa; write_out = outfile; write_fmt = format;
        return fail_write ? FAIL : OK;
}
void kalign_free_msa(struct msa *msa) { n_free++; free_msa_arg = msa; }
int tlfilename(char *path, char **out) { (void)path; *out = NULL; return OK; }

static int eq(const char *a, const char *b) { return strcmp(a, b) == 0; }

VK_MAIN()
{
        VK_INIT();
#if defined(OB_O2)
        char s[STRLEN + 1];
        for (int i = 0; i < STRLEN; i++) s[i] = (char)vin.b[i];
        s[STRLEN] = 0;
        int type = -77;
        int rc = set_aln_type(s, &type);
        if (eq(s, "protein"))   VK_ASSERT(rc == OK && type == KALIGN_TYPE_PROTEIN, "C09: --type protein selects protein");
        if (eq(s, "divergent")) VK_ASSERT(rc == OK && type == KALIGN_TYPE_PROTEIN_DIVERGENT, "C09: --type divergent selects divergent");
        if (eq(s, "dna"))       VK_ASSERT(rc == OK && type == KALIGN_TYPE_DNA, "C09: --type dna selects dna");
        if (eq(s, "internal"))  VK_ASSERT(rc == OK && type == KALIGN_TYPE_DNA_INTERNAL, "C09: --type internal selects internal");
        if (eq(s, "rna"))       VK_ASSERT(rc == OK && type == KALIGN_TYPE_RNA, "C09: --type rna selects rna");
        if (rc == OK) {
                const char *w = type == KALIGN_TYPE_PROTEIN ? "protein" : type == KALIGN_TYPE_PROTEIN_DIVERGENT ? "divergent" :
                                type == KALIGN_TYPE_DNA ? "dna" : type == KALIGN_TYPE_DNA_INTERNAL ? "internal" :
                                type == KALIGN_TYPE_RNA ? "rna" : NULL;
                VK_ASSERT(w != NULL, "C09: an accepted word maps to one of the five types");
                if (w) VK_ASSERT(strstr(s, w) != NULL, "C09: the selected type is one the word names");
        } else {
                VK_ASSERT(rc == FAIL, "C09: set_aln_type returns OK or FAIL");
                VK_ASSERT(!strstr(s, "protein") && !strstr(s, "divergent") && !strstr(s, "dna") && !strstr(s, "internal") && !strstr(s, "rna"),
                          "C09: only words naming no type are rejected");
        }
        int t2 = -77;
        VK_ASSERT(set_aln_type(NULL, &t2) == OK && t2 == KALIGN_TYPE_UNDEFINED, "C09: no --type means automatic");
#elif defined(OB_O3)
        struct parameters *p = init_param();
        VK_ASSUME(p != NULL);
        VK_ASSERT(p->gpo == -1.0f && p->gpe == -1.0f && p->tgpe == -1.0f, "C09: option defaults mean 'not given'");
        VK_ASSERT(p->type == -1 && p->nthreads == 4 && p->format == NULL && p->outfile == NULL, "C09: option defaults");
        char *names[3] = {"a", "b", "c"};
        char out[2] = "o", fmt[2] = "f";
        p->num_infiles = NFILES;
        p->infile = names;
        p->type = vin.i[0]; p->nthreads = vin.i[1];
        p->gpo = vin.f[0]; p->gpe = vin.f[1]; p->tgpe = vin.f[2];
        VK_ASSUME(p->gpo == p->gpo && p->gpe == p->gpe && p->tgpe == p->tgpe); /* not NaN */
        p->outfile = vin.b[0] ? out : NULL; p->format = vin.b[1] ? fmt : NULL;
        fail_read_at = vin.b[2]; fail_run = vin.b[3]; fail_write = vin.b[4];
        int rc = run_kalign(p);
        int read_failed = fail_read_at >= 1 && fail_read_at <= NFILES;
        VK_ASSERT(rc == ((read_failed || fail_run || fail_write) ? FAIL : OK), "C09/C05: run_kalign fails iff a library call failed");
        if (!read_failed) {
                VK_ASSERT(n_read == NFILES, "C04: every input file is read once");
                for (int i = 0; i < NFILES; i++) VK_ASSERT(read_names[i] == names[i], "C04: input files are read in command-line order");
                VK_ASSERT(n_run == 1 && run_msa == &the_msa, "C09: one alignment run on the msa that was read");
                VK_ASSERT(run_type == p->type && run_threads == p->nthreads, "C09: type and thread count reach kalign_run unchanged");
                VK_ASSERT(run_gpo == p->gpo && run_gpe == p->gpe && run_tgpe == p->tgpe, "C09: gap penalties reach kalign_run unchanged");
                if (!fail_run) VK_ASSERT(n_write == 1 && write_msa == &the_msa && write_out == p->outfile && write_fmt == p->format, "C09: output file and format reach the writer unchanged");
                else VK_ASSERT(n_write == 0, "C05: nothing is written after a failed run");
        } else {
                VK_ASSERT(n_run == 0 && n_write == 0, "C05: nothing runs after a failed read");
        }
        VK_ASSERT(n_free == 1, "C16: the msa is released exactly once");
        p->num_infiles = 0; /* infile is not heap memory in this harness */
        free_parameters(p);
#elif defined(OB_O4)
        /* up to three options out of --gpo --gpe --tgpe --type -n, then one input file */
        int given[3] = {-1, -1, -1};    /* index of the last argument given for gpo / gpe / tgpe */
        int nth = -1, typ = -1;
        for (int k = 0; k < 3; k++) {
                int c = vin.i[k];
                VK_ASSUME(c == -1 || c == OPT_GPO || c == OPT_GPE || c == OPT_TGPE || c == 'n' || c == OPT_ALN_TYPE);
                if (k > 0 && vk_codes[k - 1] == -1) VK_ASSUME(c == -1);
                vk_codes[k] = c;
                vk_dval[k] = (double)vin.f[k]; vk_ival[k] = vin.i[3 + k];
                VK_ASSUME(vin.f[k] == vin.f[k] && vin.f[k] > -1.0e30f && vin.f[k] < 1.0e30f);
                vk_arg[k][0] = 'd'; vk_arg[k][1] = 'n'; vk_arg[k][2] = 'a'; vk_arg[k][3] = 0;   /* "dna" when used as --type */
                if (c == OPT_GPO) given[0] = k; if (c == OPT_GPE) given[1] = k; if (c == OPT_TGPE) given[2] = k;
                if (c == 'n') nth = k; if (c == OPT_ALN_TYPE) typ = k;
        }
        vk_codes[3] = -1;
        char *argv[3] = {"kalign", "in.fa", NULL};
        optind = 1;
        fail_read_at = 0; fail_run = 0; fail_write = 0;
        int rc = kalign_cli_main(2, argv);
        if (nth >= 0 && vk_ival[nth] < 1) {
                VK_ASSERT(rc == EXIT_FAILURE && n_run == 0, "C05: a thread count below 1 is rejected");
        } else {
                VK_ASSERT(rc == EXIT_SUCCESS && n_run == 1, "C09: one alignment run");
                VK_ASSERT(run_gpo == (given[0] >= 0 ? (float)vk_dval[given[0]] : -1.0f), "C09: --gpo reaches kalign_run as the number the user wrote (else 'not given')");
                VK_ASSERT(run_gpe == (given[1] >= 0 ? (float)vk_dval[given[1]] : -1.0f), "C09: --gpe reaches kalign_run as the number the user wrote (else 'not given')");
                VK_ASSERT(run_tgpe == (given[2] >= 0 ? (float)vk_dval[given[2]] : -1.0f), "C09: --tgpe reaches kalign_run as the number the user wrote (else 'not given')");
                VK_ASSERT(run_threads == (nth >= 0 ? vk_ival[nth] : 4), "C09: -n reaches kalign_run (default 4)");
                VK_ASSERT(run_type == (typ >= 0 ? KALIGN_TYPE_DNA : KALIGN_TYPE_UNDEFINED), "C09: --type word reaches kalign_run as its constant");
                VK_ASSERT(n_read == 1 && read_names[0] == argv[1], "C04: the positional file is read");
        }
#endif
        VK_END();
}
