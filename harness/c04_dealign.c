/* C04-O2b: alignment-status detection and de-alignment (real detect_aligned / dealign_msa of lib/src/msa_op.c) on VK_NS
 * sequences with symbolic lengths (0..VK_LMAX) and symbolic gap vectors.
 * assert: the status is classified from the gap vectors as documented; after dealign_msa every gap count is 0, residues
 * and lengths are untouched, status is UNALIGNED: whatever gaps the input carried cannot influence what follows. */
#include "vk.h"
#include "tldevel.h"
#include "vk_msa.h"
#include "msa_op.h"
VK_MAIN()
{
        VK_INIT();
        struct msa *m = vk_mk_msa(VK_NS, VK_LMAX + 1);
        m->numseq = VK_NS; m->quiet = 1;
        int vb = 0, anygap = 0, minl = 1 << 20, maxl = 0;
        unsigned char res[VK_NS][VK_LMAX]; int len[VK_NS];
        for (int s = 0; s < VK_NS; s++) {
                int l = vin.b[vb++]; VK_ASSUME(l <= VK_LMAX);
#ifdef VK_NFIX
                /* many-record instances: the first VK_NFIX records are a concrete backdrop (one residue, no gaps); only the
                 * remaining records are symbolic - the classification must still look at EVERY record */
                if (s < VK_NFIX) l = 1;
#endif
                len[s] = l; m->sequences[s]->len = l;
                int tot = l;
                for (int k = 0; k <= VK_LMAX; k++) { int g = vin.b[vb++]; VK_ASSUME(g <= 3); if (k > l) g = 0;
#ifdef VK_NFIX
                        if (s < VK_NFIX) g = 0;
#endif
 m->sequences[s]->gaps[k] = g; tot += g; if (g) anygap = 1; }
                for (int k = 0; k < VK_LMAX; k++) { res[s][k] = vin.b[vb++]; m->sequences[s]->seq[k] = (char)res[s][k]; }
                if (tot < minl) minl = tot; if (tot > maxl) maxl = tot;
        }
        VK_ASSERT(detect_aligned(m) == OK, "detect_aligned succeeds");
        int want = anygap ? (minl == maxl ? ALN_STATUS_ALIGNED : ALN_STATUS_UNKNOWN) : (minl == maxl ? ALN_STATUS_UNKNOWN : ALN_STATUS_UNALIGNED);
        VK_ASSERT(m->aligned == want, "C04: status: gaps + equal row lengths = aligned; no gaps + different lengths = unaligned; otherwise unknown");
        VK_ASSERT(dealign_msa(m) == OK && m->aligned == ALN_STATUS_UNALIGNED, "C04: de-alignment marks the input unaligned");
        for (int s = 0; s < VK_NS; s++) {
                VK_ASSERT(m->sequences[s]->len == len[s], "C04: de-alignment keeps the residues");
                for (int k = 0; k <= VK_LMAX; k++) VK_ASSERT(m->sequences[s]->gaps[k] == 0 || k > len[s], "C04: every gap count is removed");
                for (int k = 0; k < VK_LMAX; k++) VK_ASSERT((unsigned char)m->sequences[s]->seq[k] == res[s][k], "C04: residues untouched");
        }
        VK_END();
}
