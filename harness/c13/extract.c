/* C13 extractor + translator validation (native, built from the current /repo sources with -DKALIGN_VERIF).
 *   extract            : prints the two 128-entry letter models of detect_alphabet as hex doubles
 *   validate <file>    : reads histograms (128 ints per line) and prints the real function's decision per line
 */
#include <stdio.h>
#include <stdlib.h>
#include <string.h>
#include "tldevel.h"
#include "msa_struct.h"
#include "msa_op.h"
#include "alphabet.h"
static double T_dna[128], T_prot[128];
static int seen = 0;
void kalign_verif_tables(const double *dna, const double *protein) { memcpy(T_dna, dna, sizeof T_dna); memcpy(T_prot, protein, sizeof T_prot); seen++; }
static int decide(const int *f)
{
        struct msa m; memset(&m, 0, sizeof m);
        m.quiet = 1; m.biotype = 77; m.L = 0;
        for (int i = 0; i < 128; i++) m.letter_freq[i] = f[i];
        int rc = detect_alphabet(&m);
        if (rc != OK) return -1;
        if (m.biotype == ALN_BIOTYPE_DNA) return 1;
        if (m.biotype == ALN_BIOTYPE_PROTEIN) return 0;
        return 2; /* undecided: biotype left untouched */
}
int main(int argc, char **argv)
{
        int zero[128] = {0};
        if (argc >= 2 && !strcmp(argv[1], "extract")) {
                decide(zero);
                if (seen != 1) { fprintf(stderr, "hook not reached\n"); return 1; }
                for (int i = 0; i < 128; i++) printf("%d %a %a\n", i, T_dna[i], T_prot[i]);
                return 0;
        }
        if (argc >= 3 && !strcmp(argv[1], "validate")) {
                FILE *f = fopen(argv[2], "r"); if (!f) return 1;
                int h[128];
                for (;;) {
                        int ok = 1;
                        for (int i = 0; i < 128; i++) if (fscanf(f, "%d", &h[i]) != 1) { ok = 0; break; }
                        if (!ok) break;
                        printf("%d\n", decide(h));
                }
                return 0;
        }
        return 2;
}
