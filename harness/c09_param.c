/* C09-O1: aln_param_init (real lib/src/aln_param.c) selects exactly the documented parameter set of the
 * requested type and each explicit penalty replaces exactly its own field.
 *
 * symbolic: gpo, gpe, tgpe (vin.f[0..2]), n_threads (vin.i[2]); biotype/type either concrete (-DBIOTYPE,
 * -DTYPE) or symbolic (vin.i[0], vin.i[1]) with -DSYM_TYPE.
 * reference: README.md:60-74 (dna 5/-4, 8/6/0; internal tgpe 8) and the published matrices
 * (CorBLOSUM66_13plus, Gonnet250, RNA) pinned by sum / position-weighted sum / penalties.
 */
#include "vk.h"
#include "tldevel.h"
#include "kalign/kalign.h"
#include "msa_struct.h"
#include "aln_param.h"

struct ref { int ok; float gpo, gpe, tgpe; long sum, wsum; };

static struct ref reference(int biotype, int type)
{
        struct ref dna = {1, 8.0f, 6.0f, 0.0f, -55, -2695};
        struct ref internal = {1, 8.0f, 6.0f, 8.0f, -55, -2695};
        struct ref rna = {1, 217.0f, 39.4f, 292.6f, 6381, 320997};
        struct ref prot = {1, 5.5f, 2.0f, 1.0f, -393, -100617};
        struct ref div = {1, 55.0f, 8.0f, 4.0f, -2738, -649682};
        struct ref fail = {0, 0, 0, 0, 0, 0};
        if (biotype == ALN_BIOTYPE_DNA) {
                switch (type) {
                case KALIGN_TYPE_DNA: return dna;
                case KALIGN_TYPE_DNA_INTERNAL: return internal;
                case KALIGN_TYPE_RNA: return rna;
                case KALIGN_TYPE_PROTEIN: return fail;          /* protein type on nucleotides */
                case KALIGN_TYPE_PROTEIN_DIVERGENT: return fail; /* protein type on nucleotides */
                default: { struct ref any = rna; any.ok = 2; return any; } /* "automatic": some nucleotide set */
                }
        } else if (biotype == ALN_BIOTYPE_PROTEIN) {
                switch (type) {
                case KALIGN_TYPE_PROTEIN: return prot;
                case KALIGN_TYPE_PROTEIN_DIVERGENT: return div;
                case KALIGN_TYPE_DNA: case KALIGN_TYPE_DNA_INTERNAL: case KALIGN_TYPE_RNA: return fail;
                default: return prot; /* README: CorBLOSUM66_13plus is the default for protein */
                }
        }
        return fail;
}

static int given(float x) { return x >= 0.0f; }

VK_MAIN()
{
        VK_INIT();
#ifdef SYM_TYPE
        /* type: any int that is not one of the six constants (they are covered one by one) */
        int biotype = BIOTYPE, type = vin.i[1];
        VK_ASSUME(type < 0 || type > 5);
#else
        int biotype = BIOTYPE, type = TYPE;
#endif
        int nthreads = vin.i[2];
        float gpo = vin.f[0], gpe = vin.f[1], tgpe = vin.f[2];
        /* each penalty is either "not given" (-1, the CLI/API convention) or a finite value >= 0 */
        VK_ASSUME(gpo == -1.0f || (gpo >= 0.0f && gpo <= 1.0e30f));
        VK_ASSUME(gpe == -1.0f || (gpe >= 0.0f && gpe <= 1.0e30f));
        VK_ASSUME(tgpe == -1.0f || (tgpe >= 0.0f && tgpe <= 1.0e30f));
#ifdef KF_C09_DUMMY
#endif
        struct ref r = reference(biotype, type);
        struct aln_param *d = NULL, *a = NULL;
        int rc_d = aln_param_init(&d, biotype, nthreads, type, -1.0f, -1.0f, -1.0f);
        int rc_a = aln_param_init(&a, biotype, nthreads, type, gpo, gpe, tgpe);

        /* (i) rejected iff the type does not fit the kind of sequence */
        VK_ASSERT((rc_d == OK) == (r.ok != 0), "C09: type/kind mismatch is rejected, everything else accepted");
        VK_ASSERT(rc_a == rc_d, "C09: acceptance does not depend on the penalties");
        if (rc_d != OK) VK_ASSERT(d == NULL && a == NULL, "C16: a rejected aln_param_init hands nothing to the caller");
        if (rc_d == OK && rc_a == OK) {
                /* (ii) defaults are the documented set */
                long sum = 0, wsum = 0;
                for (int i = 0; i < 23; i++) {
                        for (int j = 0; j < 23; j++) {
                                float v = d->subm[i][j];
                                int iv = (int)v;
                                VK_ASSERT((float)iv == v, "C09: matrix entries are integral");
                                sum += iv;
                                wsum += (long)(i * 23 + j + 1) * iv;
                                /* (v) matrix independent of the penalties */
                                VK_ASSERT(a->subm[i][j] == v, "C09: substitution matrix does not depend on gap penalties");
                        }
                }
                if (r.ok == 1) {
                        VK_ASSERT(d->gpo == r.gpo && d->gpe == r.gpe && d->tgpe == r.tgpe, "C09: default penalties of the selected type");
                        VK_ASSERT(sum == r.sum && wsum == r.wsum, "C09: substitution matrix of the selected type");
                } else {
                        /* automatic choice on nucleotides: one of the three documented nucleotide sets */
                        int is_dna = d->gpo == 8.0f && d->gpe == 6.0f && (d->tgpe == 0.0f || d->tgpe == 8.0f) && sum == -55 && wsum == -2695;
                        int is_rna = d->gpo == 217.0f && d->gpe == 39.4f && d->tgpe == 292.6f && sum == 6381 && wsum == 320997;
                        VK_ASSERT(is_dna || is_rna, "C09: automatic nucleotide parameters are one documented set");
                }
                if (biotype == ALN_BIOTYPE_DNA && (type == KALIGN_TYPE_DNA || type == KALIGN_TYPE_DNA_INTERNAL)) {
                        VK_ASSERT(d->subm[0][0] == 5.0f && d->subm[3][3] == 5.0f && d->subm[0][1] == -4.0f && d->subm[2][1] == -4.0f,
                                  "C09: README dna scores 5 / -4");
                }
                /* (iii),(iv) each explicit value replaces exactly its own field */
                VK_ASSERT(a->gpo == (given(gpo) ? gpo : d->gpo), "C09: gpo override replaces gpo and only gpo");
                VK_ASSERT(a->gpe == (given(gpe) ? gpe : d->gpe), "C09: gpe override replaces gpe and only gpe");
                VK_ASSERT(a->tgpe == (given(tgpe) ? tgpe : d->tgpe), "C09: tgpe override replaces tgpe and only tgpe");
                VK_ASSERT(a->nthreads == nthreads, "C09: thread count stored unchanged");
        }
        if (rc_d == OK) aln_param_free(d);
        if (rc_a == OK) aln_param_free(a);
        VK_END();
}
