/* vk_dp_oracle.h - independent oracle for C07 (written from the scoring model, not from the kernels' code structure).
 * Scoring of an alignment of a (la residues) and b (lb residues), three states, no direct gap<->gap move:
 *   aligned pair: subm[a_i][b_j];  internal gap run of length L: 2*gpo + (L-1)*gpe (open and close both cost gpo);
 *   terminal gap run (touching either end of the alignment) of length L: L*tgpe, plus gpo for the one
 *   aligned<->terminal-gap transition in the LOW reading, nothing in the HIGH reading (the kernels charge it at the
 *   leading end in the forward pass and at the trailing end in the backward pass - see DESIGN.md C07).
 * oracle_lo_opt : max over all alignments of the LOW score (full-matrix DP)
 * oracle_hi_path: HIGH score of the alignment kalign returned (path[i] = partner of a_i or -1)
 * C07 assertion: oracle_hi_path(R) + tol >= oracle_lo_opt.
 */
#ifndef VK_DP_ORACLE_H
#define VK_DP_ORACLE_H
#ifndef VK_LAMAX
#define VK_LAMAX 4
#endif
#ifndef VK_LBMAX
#define VK_LBMAX 4
#endif
#define VK_NEG (-1.0e30f)
static float vk_max2(float x, float y) { return x > y ? x : y; }
static float vk_max3(float x, float y, float z) { return vk_max2(vk_max2(x, y), z); }

static float oracle_lo_opt(float **subm, float gpo, float gpe, float tgpe, const uint8_t *a, int la, const uint8_t *b, int lb)
{
        float M[VK_LAMAX + 1][VK_LBMAX + 1], GA[VK_LAMAX + 1][VK_LBMAX + 1], GB[VK_LAMAX + 1][VK_LBMAX + 1];
        for (int i = 0; i <= VK_LAMAX; i++) for (int j = 0; j <= VK_LBMAX; j++) { M[i][j] = VK_NEG; GA[i][j] = VK_NEG; GB[i][j] = VK_NEG; }
        M[0][0] = 0.0f;
        for (int i = 0; i <= VK_LAMAX; i++) for (int j = 0; j <= VK_LBMAX; j++) if (i <= la && j <= lb && (i || j)) {
                /* GA: column holding b_j only (gap in a) */
                if (j >= 1) {
                        if (i == 0) GA[i][j] = (j == 1 ? 0.0f : GA[i][j - 1]) - tgpe;                      /* leading overhang of b */
                        else if (i == la) GA[i][j] = vk_max2(GA[i][j - 1], M[i][j - 1] - gpo) - tgpe;    /* trailing overhang of b (LOW: gpo) */
                        else GA[i][j] = vk_max2(GA[i][j - 1] - gpe, M[i][j - 1] - gpo);
                }
                /* GB: column holding a_i only (gap in b) */
                if (i >= 1) {
                        if (j == 0) GB[i][j] = (i == 1 ? 0.0f : GB[i - 1][j]) - tgpe;
                        else if (j == lb) GB[i][j] = vk_max2(GB[i - 1][j], M[i - 1][j] - gpo) - tgpe;
                        else GB[i][j] = vk_max2(GB[i - 1][j] - gpe, M[i - 1][j] - gpo);
                }
                if (i >= 1 && j >= 1) {
                        /* leaving a gap (internal or leading terminal) costs gpo in the LOW reading */
                        float best = vk_max3(M[i - 1][j - 1], GA[i - 1][j - 1] - gpo, GB[i - 1][j - 1] - gpo);
                        M[i][j] = best + subm[a[i - 1]][b[j - 1]];
                }
        }
        return vk_max3(M[la][lb], GA[la][lb], GB[la][lb]);
}

/* HIGH score of the returned alignment; path[1..la] = 1-based partner in b or -1; assumes the path is valid (vk_path_valid) */
static float oracle_hi_path(float **subm, float gpo, float gpe, float tgpe, const uint8_t *a, int la, const uint8_t *b, int lb, const int *path)
{
        float sc = 0.0f;
        int first = 0, last = 0;
        for (int i = 1; i <= VK_LAMAX; i++) if (i <= la && path[i] != -1) { if (!first) first = i; last = i; }
        /* leading / trailing overhangs: terminal */
        int lead = (first - 1) + (path[first] - 1);             /* unpaired residues before the first pair (only one side is non-zero) */
        int trail = (la - last) + (lb - path[last]);
        sc -= tgpe * (float)lead + tgpe * (float)trail;
        int pi = first, pj = path[first];
        sc += subm[a[first - 1]][b[path[first] - 1]];
        for (int i = 1; i <= VK_LAMAX; i++) if (i <= la && i > first && path[i] != -1) {
                int ga = i - pi - 1, gb = path[i] - pj - 1;       /* unpaired a residues / b residues between two consecutive pairs */
                if (ga > 0) sc -= 2.0f * gpo + gpe * (float)(ga - 1);
                if (gb > 0) sc -= 2.0f * gpo + gpe * (float)(gb - 1);
                sc += subm[a[i - 1]][b[path[i] - 1]];
                pi = i; pj = path[i];
        }
        return sc;
}
#endif
