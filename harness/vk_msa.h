/* vk_msa.h - build msa objects with the layout/invariants of lib/src/msa_alloc.c but small capacities
 * (the real alloc_msa_seq allocates 512-element arrays and zeroes 513 gaps per sequence; its own
 * life cycle is checked separately in C05/C16).  Buffers that the real allocator leaves uninitialised
 * (seq, s, name) are left uninitialised here too: under CBMC they are nondeterministic. */
#ifndef VK_MSA_H
#define VK_MSA_H
#include <stdlib.h>
#include <string.h>
#include "msa_struct.h"
#include "alphabet.h"

#ifndef VK_NAME_CAP
#define VK_NAME_CAP MSA_NAME_LEN   /* harnesses whose names are short may shrink this so that CBMC's array field sensitivity (<=64 elements) applies */
#endif
static struct msa_seq *vk_mk_seq(int alloc_len)
{
        struct msa_seq *q = malloc(sizeof(struct msa_seq));
        __CPROVER_assume(q != NULL);
        q->name = malloc(VK_NAME_CAP);
        q->seq = malloc(alloc_len);
        q->s = malloc(alloc_len);
        q->gaps = malloc(sizeof(int) * (alloc_len + 1));
        __CPROVER_assume(q->name && q->seq && q->s && q->gaps);
        for (int i = 0; i < alloc_len + 1; i++) q->gaps[i] = 0;
        q->len = 0; q->rank = 0; q->alloc_len = alloc_len;
        return q;
}

static struct msa *vk_mk_msa(int alloc_numseq, int alloc_len)
{
        struct msa *m = malloc(sizeof(struct msa));
        __CPROVER_assume(m != NULL);
        m->alloc_numseq = alloc_numseq; m->numseq = 0; m->num_profiles = 0;
        m->L = (uint8_t)ALPHA_UNDEFINED; m->biotype = ALN_BIOTYPE_UNDEF; m->aligned = 0; m->alnlen = 0; m->quiet = 1;
        m->plen = NULL; m->sip = NULL; m->nsip = NULL; m->run_parallel = 0;
        m->sequences = malloc(sizeof(struct msa_seq *) * alloc_numseq);
        __CPROVER_assume(m->sequences != NULL);
        for (int i = 0; i < alloc_numseq; i++) m->sequences[i] = vk_mk_seq(alloc_len);
        for (int i = 0; i < 128; i++) m->letter_freq[i] = 0;
        return m;
}
static int vk_isupper(int c) { return c >= 'A' && c <= 'Z'; }
static int vk_islower(int c) { return c >= 'a' && c <= 'z'; }
static int vk_isalpha(int c) { return vk_isupper(c) || vk_islower(c); }
#endif
