/* C12-L1: pairwise distances for < 100 sequences (real d_estimation(pair=1), calc_distance of lib/src/sequence_distance.c,
 * bpm_block of lib/src/bpm.c, galloc of tldevel.c).
 * concrete: VK_NS sequences with lengths VK_LEN0..2; symbolic: their residue classes (0..12).
 * assert: the matrix is symmetric; equal sequences are at distance (len term) <= 1 and have identical rows; two sequences
 * neither of which occurs inside the other (reference: plain substring edit distance > 0 both ways) are at distance
 * >= 1 + length term.
 */
#include "vk.h"
#include "tldevel.h"
#include "vk_msa.h"
#include "sequence_distance.h"

static const int LEN[3] = {VK_LEN0, VK_LEN1,
#ifdef VK_LEN2
        VK_LEN2
#else
        1
#endif
};
#define LMAXX 4

/* reference: does p (length m) occur in t (length n) with 0 edits, i.e. is p a substring of t */
static int contains(const uint8_t *t, int n, const uint8_t *p, int m)
{
        int any = 0;
        for (int s = 0; s < LMAXX; s++) if (s + m <= n) {
                int ok = 1;
                for (int k = 0; k < LMAXX; k++) if (k < m && t[s + k] != p[k]) ok = 0;
                if (ok) any = 1;
        }
        return any;
}

VK_MAIN()
{
        VK_INIT();
        struct msa *m = vk_mk_msa(VK_NS, LMAXX + 1);
        m->numseq = VK_NS;
        int samples[VK_NS];
        int vb = 0;
        for (int s = 0; s < VK_NS; s++) {
                samples[s] = s;
                m->sequences[s]->len = LEN[s];
                m->sequences[s]->rank = vin.i[s];   /* the caller's input position: must not influence distances (C03) */
                for (int k = 0; k < LMAXX; k++) { uint8_t c = vin.b[vb++]; VK_ASSUME(c < 13); if (k < LEN[s]) m->sequences[s]->s[k] = c; }
        }
        float **dm = d_estimation(m, samples, VK_NS, 1);
        VK_ASSERT(dm != NULL, "distance matrix allocated");
        for (int i = 0; i < VK_NS; i++) for (int j = 0; j < VK_NS; j++) {
                VK_ASSERT(dm[i][j] == dm[j][i], "C12: distance matrix is symmetric");
                const uint8_t *a = m->sequences[i]->s, *b = m->sequences[j]->s;
                int la = LEN[i], lb = LEN[j];
                float add = (float)((la + lb) / 2) / 10000.0f;     /* lengths here are far below 10000 */
                int same = la == lb;
                for (int k = 0; k < LMAXX; k++) if (k < la && k < lb && a[k] != b[k]) same = 0;
                if (same) VK_ASSERT(dm[i][j] == add && dm[i][j] <= 1.0f, "C12: equal sequences are at distance 0 + length term (<= 1)");
                int cont = la >= lb ? contains(a, la, b, lb) : contains(b, lb, a, la);
                if (!cont) VK_ASSERT(dm[i][j] >= 1.0f + add, "C12: sequences not contained in one another are at distance >= 1 + length term");
                else VK_ASSERT(dm[i][j] == add, "C12: containment means distance 0 + length term");
        }
        VK_END();
}
