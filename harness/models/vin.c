#include "vk.h"
struct vin_t vin;
