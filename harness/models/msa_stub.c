/* link-time stand-ins for msa_alloc.c entry points that msa_op.c references but the harnessed paths
 * never reach with these sizes; reaching one is reported (assert) rather than silently modelled */
#include "tldevel.h"
#include "msa_struct.h"
int alloc_msa(struct msa **msa, int numseq) { __CPROVER_assert(0, "model limit: alloc_msa not expected on this path"); return FAIL; }
int resize_msa(struct msa *msa) { __CPROVER_assert(0, "model limit: resize_msa not expected within the bound"); return FAIL; }
int resize_msa_seq(struct msa_seq *seq) { __CPROVER_assert(0, "model limit: resize_msa_seq not expected within the bound"); return FAIL; }
int alloc_msa_seq(struct msa_seq **s) { __CPROVER_assert(0, "model limit: alloc_msa_seq not expected on this path"); return FAIL; }
void free_msa_seq(struct msa_seq *seq) { if (seq) { free(seq->name); free(seq->seq); free(seq->s); free(seq->gaps); free(seq); } }
void kalign_free_msa(struct msa *msa) { (void)msa; }
