/* sequence_distance.c references galloc (tldevel.c) in d_estimation; not reached by calc_distance harnesses */
#include <stdint.h>
int alloc_2D_array_size_float(float ***array, int dim1, int dim2) { __CPROVER_assert(0, "model limit: galloc not expected on this path"); return 1; }
int galloc_unknown_type_error(void *p, ...) { return 1; }
int galloc_too_few_arg_error(void *p) { return 1; }
