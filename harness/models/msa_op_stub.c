/* msa_cmp.c calls finalise_alignment only for msa objects in state ALIGNED; the C17 harnesses pass FINAL objects */
struct msa;
int finalise_alignment(struct msa *msa) { __CPROVER_assert(0, "model limit: finalise_alignment not expected (inputs are FINAL)"); return 1; }
