/* model: qsort for arrays of pointers = insertion sort calling the real comparator.
 * Any conforming qsort returns the same array iff the comparator is a strict total order on the elements,
 * which the C03 harness proves separately for the real comparators. */
#include <stddef.h>
#ifndef VK_QSORT_MAX
#define VK_QSORT_MAX 6
#endif
void qsort(void *base, size_t n, size_t size, int (*cmp)(const void *, const void *))
{
        __CPROVER_assert(size == sizeof(void *), "model limit: qsort model handles arrays of pointers only");
        __CPROVER_assert(n <= VK_QSORT_MAX, "model limit: qsort model bound");
        void **a = (void **)base;
        for (size_t i = 1; i < VK_QSORT_MAX; i++) {
                if (i < n) {
                        void *key = a[i];
                        size_t j = i;
                        for (size_t k = 0; k < VK_QSORT_MAX; k++) {
                                if (j > 0 && cmp(&key, &a[j - 1]) < 0) { a[j] = a[j - 1]; j--; }
                        }
                        a[j] = key;
                }
        }
}
