/* model of lib/src/msa_alloc.c for reader/writer harnesses: same interface and invariants (every slot of
 * sequences[] holds an allocated msa_seq with name[MSA_NAME_LEN], seq/s[alloc_len], gaps[alloc_len+1] zeroed,
 * len 0), but capacities VK_MSA_CAP / VK_SEQ_CAP instead of 512/512 (the real allocator is checked on its own
 * in C05/C16).  Growing beyond the model capacity is reported as a model limit, never silently accepted. */
#include <stdlib.h>
#include "tldevel.h"
#include "msa_struct.h"
#include "alphabet.h"
#ifndef VK_MSA_CAP
#define VK_MSA_CAP 4
#endif
#ifndef VK_SEQ_CAP
#define VK_SEQ_CAP 8
#endif
int alloc_msa_seq(struct msa_seq **s)
{
        struct msa_seq *q = malloc(sizeof(struct msa_seq));
        __CPROVER_assume(q != NULL);
        q->name = malloc(MSA_NAME_LEN);
        q->seq = malloc(VK_SEQ_CAP);
        q->s = malloc(VK_SEQ_CAP);
        q->gaps = malloc(sizeof(int) * (VK_SEQ_CAP + 1));
        __CPROVER_assume(q->name && q->seq && q->s && q->gaps);
        for (int i = 0; i < VK_SEQ_CAP + 1; i++) q->gaps[i] = 0;
        q->len = 0; q->rank = 0; q->alloc_len = VK_SEQ_CAP;
        *s = q;
        return OK;
}
int alloc_msa(struct msa **msa, int numseq)
{
        (void)numseq;
        struct msa *m = malloc(sizeof(struct msa));
        __CPROVER_assume(m != NULL);
        m->alloc_numseq = VK_MSA_CAP; m->numseq = 0; m->num_profiles = 0;
        m->L = (uint8_t)ALPHA_UNDEFINED; m->biotype = ALN_BIOTYPE_UNDEF; m->aligned = 0; m->alnlen = 0; m->quiet = 0;
        m->plen = NULL; m->sip = NULL; m->nsip = NULL;
        m->sequences = malloc(sizeof(struct msa_seq *) * VK_MSA_CAP);
        __CPROVER_assume(m->sequences != NULL);
        for (int i = 0; i < VK_MSA_CAP; i++) { m->sequences[i] = NULL; alloc_msa_seq(&m->sequences[i]); }
        for (int i = 0; i < 128; i++) m->letter_freq[i] = 0;
        *msa = m;
        return OK;
}
int resize_msa(struct msa *msa) { (void)msa; __CPROVER_assert(0, "model limit: more sequences than VK_MSA_CAP"); __CPROVER_assume(0); return FAIL; }
int resize_msa_seq(struct msa_seq *seq) { (void)seq; __CPROVER_assert(0, "model limit: sequence longer than VK_SEQ_CAP"); __CPROVER_assume(0); return FAIL; }
void free_msa_seq(struct msa_seq *seq)
{
        if (seq) { free(seq->name); free(seq->seq); free(seq->s); free(seq->gaps); free(seq); }
}
void kalign_free_msa(struct msa *msa)
{
        if (msa) {
                for (int i = 0; i < VK_MSA_CAP; i++) if (i < msa->alloc_numseq && msa->sequences[i]) free_msa_seq(msa->sequences[i]);
                if (msa->sip) { for (int i = 0; i < 2 * VK_MSA_CAP; i++) if (i < msa->num_profiles && msa->sip[i]) free(msa->sip[i]); free(msa->sip); }
                if (msa->plen) free(msa->plen);
                if (msa->nsip) free(msa->nsip);
                free(msa->sequences);
                free(msa);
        }
}
