/* model: tldevel message functions have empty bodies (formatting is not the subject) */
#include <stdarg.h>
void error(const char *location, const char *format, ...) { (void)location; (void)format; }
void warning(const char *location, const char *format, ...) { (void)location; (void)format; }
void info(const char *location, const char *format, ...) { (void)location; (void)format; }
void log_message(const char *format, ...) { (void)format; }
/* the C13 hook (-DKALIGN_VERIF) calls this from detect_alphabet; only the C13 extractor gives it a body that records */
void kalign_verif_tables(const double *dna, const double *protein) { (void)dna; (void)protein; }
