/* model: tldevel message functions have empty bodies (formatting is not the subject) */
#include <stdarg.h>
void error(const char *location, const char *format, ...) { (void)location; (void)format; }
void warning(const char *location, const char *format, ...) { (void)location; (void)format; }
void info(const char *location, const char *format, ...) { (void)location; (void)format; }
void log_message(const char *format, ...) { (void)format; }
