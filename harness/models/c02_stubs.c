/* aln_run.c links against these; in the C02 ordering harnesses they are never reached (do_align is a recorder) */
#include "tldevel.h"
struct aln_mem; struct aln_param; struct msa; struct aln_tasks;
int make_profile_n(struct aln_param *ap, const unsigned char *seq, const int len, float **p) { __CPROVER_assert(0, "model limit: not reached"); return FAIL; }
int set_gap_penalties_n(float *prof, int len, int nsip) { __CPROVER_assert(0, "model limit: not reached"); return FAIL; }
int init_alnmem(struct aln_mem *m) { __CPROVER_assert(0, "model limit: not reached"); return FAIL; }
int aln_runner(struct aln_mem *m) { __CPROVER_assert(0, "model limit: not reached"); return FAIL; }
int mirror_path_n(struct aln_mem *m, int len_a, int len_b) { __CPROVER_assert(0, "model limit: not reached"); return FAIL; }
int add_gap_info_to_path_n(struct aln_mem *m) { __CPROVER_assert(0, "model limit: not reached"); return FAIL; }
int update_n(const float *profa, const float *profb, float *newp, struct aln_param *ap, int *path, int sipa, int sipb) { __CPROVER_assert(0, "model limit: not reached"); return FAIL; }
int make_seq(struct msa *msa, int a, int b, int *path) { __CPROVER_assert(0, "model limit: not reached"); return FAIL; }
int sort_tasks(struct aln_tasks *t, int order) { __CPROVER_assert(0, "model limit: not reached"); return FAIL; }
