/* aln_setup.c references resize_aln_mem (aln_mem.c) from init_alnmem; not reached by the path harnesses */
struct aln_mem;
int resize_aln_mem(struct aln_mem *m) { __CPROVER_assert(0, "model limit: resize_aln_mem not expected on this path"); return 1; }
