/* model: strstr (CBMC's library has no body for it); textbook definition */
#include <stddef.h>
#ifndef VK_STR_MAX
#define VK_STR_MAX 16
#endif
char *strstr(const char *h, const char *n)
{
        if (n[0] == 0) return (char *)h;
        for (int i = 0; i < VK_STR_MAX && h[i]; i++) {
                int j = 0;
                while (j < VK_STR_MAX && n[j] && h[i + j] == n[j]) j++;
                if (n[j] == 0) return (char *)(h + i);
        }
        return NULL;
}

size_t strnlen(const char *s, size_t n)
{
        size_t i = 0;
        for (int k = 0; k < VK_STR_MAX; k++) if (i < n && s[i]) i++;
        __CPROVER_assert(i == n || s[i] == 0, "model limit: strnlen model bound VK_STR_MAX");
        return i;
}
