/* model: strstr (CBMC's library has no body for it); textbook definition */
#include <stddef.h>
#ifndef VK_STR_MAX
#define VK_STR_MAX 16
#endif
char *strstr(const char *h, const char *n)
{
        if (n[0] == 0) return (char *)h;
        for (int i = 0; i < VK_STR_MAX && h[i]; i++) {
                int j = 0;
                while (j < VK_STR_MAX && n[j] && h[i + j] == n[j]) j++;
                if (n[j] == 0) return (char *)(h + i);
        }
        return NULL;
}
