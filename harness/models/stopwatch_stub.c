/* esl_stopwatch timers are not the subject: no-op stand-ins with the real prototypes */
#include "esl_stopwatch.h"
static ESL_STOPWATCH vk_sw;
ESL_STOPWATCH *esl_stopwatch_Create(void) { return &vk_sw; }
void esl_stopwatch_Destroy(ESL_STOPWATCH *w) { (void)w; }
int esl_stopwatch_Start(ESL_STOPWATCH *w) { (void)w; return 0; }
int esl_stopwatch_Stop(ESL_STOPWATCH *w) { (void)w; return 0; }
int tl_stopwatch_Display(ESL_STOPWATCH *w) { (void)w; return 0; }
