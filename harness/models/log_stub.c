/* model: log() returns an arbitrary finite double (the structural C13 instance does not depend on its value) */
double nondet_double(void);
double log(double x) { (void)x; double r = nondet_double(); __CPROVER_assume(r > -1.0e6 && r < 1.0e6); return r; }
