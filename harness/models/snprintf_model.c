/* model: snprintf for the formats the library uses outside the writers (names): literal text, %d, %s, %c.
 * Deterministic (CBMC's built-in model writes nondeterministic bytes).  Digit rendering written from the C standard. */
#include <stdarg.h>
#include <stddef.h>
#ifndef VK_SNPRINTF_MAX
#define VK_SNPRINTF_MAX 24
#endif
int snprintf(char *dst, size_t size, const char *fmt, ...)
{
        va_list ap;
        va_start(ap, fmt);
        size_t pos = 0;
        for (int i = 0; i < VK_SNPRINTF_MAX && fmt[i]; i++) {
                if (fmt[i] != '%') { if (pos + 1 < size) dst[pos] = fmt[i]; pos++; continue; }
                i++;
                if (fmt[i] == 'd') {
                        int v = va_arg(ap, int);
                        char tmp[12]; int n = 0; unsigned u = v < 0 ? (unsigned)(-(long)v) : (unsigned)v;
                        if (v < 0) { if (pos + 1 < size) dst[pos] = '-'; pos++; }
                        do { tmp[n++] = (char)('0' + u % 10); u /= 10; } while (u && n < 11);
                        for (int k = n - 1; k >= 0; k--) { if (pos + 1 < size) dst[pos] = tmp[k]; pos++; }
                } else if (fmt[i] == 's') {
                        const char *s = va_arg(ap, const char *);
                        for (int k = 0; k < VK_SNPRINTF_MAX && s[k]; k++) { if (pos + 1 < size) dst[pos] = s[k]; pos++; }
                } else if (fmt[i] == 'c') {
                        char c = va_arg(ap, char);
                        if (pos + 1 < size) dst[pos] = c; pos++;
                } else {
                        __CPROVER_assert(0, "model limit: snprintf conversion not modelled");
                }
        }
        va_end(ap);
        if (size) dst[pos < size ? pos : size - 1] = 0;
        return (int)pos;
}
