/* differential test of harness/shim/vk_avx2_model.h against the real AVX2 instructions */
#include <immintrin.h>
#include <stdio.h>
#include <stdlib.h>
#include <string.h>
#include "../harness/shim/vk_avx2_model.h"
static uint64_t rnd(void) { static uint64_t s = 88172645463325252ull; s ^= s << 13; s ^= s >> 7; s ^= s << 17; uint64_t r = s; int k = r & 7; if (k == 0) return 0; if (k == 1) return ~0ull; if (k == 2) return 0x8000000000000000ull; if (k == 3) return 0x7fffffffffffffffull; return r * 0x9E3779B97F4A7C15ull; }
static __m256i R(vk_m256i a) { return _mm256_set_epi64x(a.q[3], a.q[2], a.q[1], a.q[0]); }
static int same(__m256i r, vk_m256i m) { uint64_t q[4]; memcpy(q, &r, 32); return !memcmp(q, m.q, 32); }
#define CHK(name, real, model) do { if (!same(real, model)) { printf("MISMATCH %s\n", name); return 1; } } while (0)
#define IMM8(f, g, a) switch (imm) { case 0x93: CHK(#f, f(R(a), 0x93), g(a, 0x93)); break; case 0x39: CHK(#f, f(R(a), 0x39), g(a, 0x39)); break; case 0x1b: CHK(#f, f(R(a), 0x1b), g(a, 0x1b)); break; default: CHK(#f, f(R(a), 0xe4), g(a, 0xe4)); }
int main(void)
{
        if (!__builtin_cpu_supports("avx2")) { printf("shim_difftest: CPU has no AVX2, skipped\n"); return 0; }
        long n = 0;
        for (int it = 0; it < 100000; it++) {
                vk_m256i a = {{rnd(), rnd(), rnd(), rnd()}}, b = {{rnd(), rnd(), rnd(), rnd()}};
                if (it % 3 == 0) b.q[it % 4] = a.q[it % 4];
                CHK("or", _mm256_or_si256(R(a), R(b)), vk_or_si256(a, b));
                CHK("and", _mm256_and_si256(R(a), R(b)), vk_and_si256(a, b));
                CHK("xor", _mm256_xor_si256(R(a), R(b)), vk_xor_si256(a, b));
                CHK("andnot", _mm256_andnot_si256(R(a), R(b)), vk_andnot_si256(a, b));
                CHK("add64", _mm256_add_epi64(R(a), R(b)), vk_add_epi64(a, b));
                CHK("cmpgt64", _mm256_cmpgt_epi64(R(a), R(b)), vk_cmpgt_epi64(a, b));
                CHK("cmpeq64", _mm256_cmpeq_epi64(R(a), R(b)), vk_cmpeq_epi64(a, b));
                if (_mm256_testz_si256(R(a), R(b)) != vk_testz_si256(a, b)) { printf("MISMATCH testz\n"); return 1; }
                if (_mm256_movemask_pd(_mm256_castsi256_pd(R(a))) != vk_movemask_pd(vk_castsi256_pd(a))) { printf("MISMATCH movemask\n"); return 1; }
                int c = it % 70;
                CHK("srli", _mm256_srli_epi64(R(a), c), vk_srli_epi64(a, c));
                CHK("slli", _mm256_slli_epi64(R(a), c), vk_slli_epi64(a, c));
                int imm = (it & 1) ? 0x93 : (it & 2) ? 0x39 : (it & 4) ? 0x1b : 0xe4;
                IMM8(_mm256_permute4x64_epi64, vk_permute4x64_epi64, a);
                CHK("blendFC", _mm256_blend_epi32(R(a), R(b), 0xFC), vk_blend_epi32(a, b, 0xFC));
                CHK("blend3F", _mm256_blend_epi32(R(a), R(b), 0x3F), vk_blend_epi32(a, b, 0x3F));
                CHK("blendA5", _mm256_blend_epi32(R(a), R(b), 0xA5), vk_blend_epi32(a, b, 0xA5));
                CHK("set1", _mm256_set1_epi64x((long long)a.q[0]), vk_set1_epi64x((long long)a.q[0]));
                n++;
        }
        printf("shim_difftest: %ld random operand tuples x 17 intrinsics agree with the hardware\n", n);
        return 0;
}
