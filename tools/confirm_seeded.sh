#!/bin/bash
# tools/confirm_seeded.sh <seeded-dir-name>... : independent confirmation of a seeded change in a scratch worktree
# (build + ctest with the change, demo fails with it and passes without). Worktree is removed afterwards.
for d in "$@"; do
  S=/verif/seeded/$d
  W=/tmp/confirm_$d
  git -C /repo worktree remove --force $W >/dev/null 2>&1; rm -rf $W
  git -C /repo worktree add -f $W HEAD >/dev/null 2>&1 || { echo "$d worktree-failed"; continue; }
  res="$d"
  ( cd $W && git apply $S/patch.diff ) || { echo "$d patch-does-not-apply"; git -C /repo worktree remove --force $W; continue; }
  if cmake -G Ninja -S $W -B $W/_build >/dev/null 2>&1 && cmake --build $W/_build >/dev/null 2>&1; then res="$res build=ok"; else res="$res build=FAIL"; fi
  t=$(ctest --test-dir $W/_build -j4 --timeout 900 < /dev/null 2>&1 | grep -E "tests passed|tests failed" | head -1)
  res="$res ctest=[${t}]"
  ( cd $S && timeout 1200 bash ./demo.sh $W/_build $W > $W/demo_with.log 2>&1 < /dev/null ); r1=$?
  ( cd $W && git apply -R $S/patch.diff ) && cmake --build $W/_build >/dev/null 2>&1
  ( cd $S && timeout 1200 bash ./demo.sh $W/_build $W > $W/demo_without.log 2>&1 < /dev/null ); r0=$?
  res="$res demo_with_change_exit=$r1 demo_unchanged_exit=$r0"
  echo "$res"
  git -C /repo worktree remove --force $W >/dev/null 2>&1; rm -rf $W
  rm -rf $S/work $S/*.o 2>/dev/null
done
