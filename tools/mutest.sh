#!/bin/bash
# tools/mutest.sh <patch.diff | -e 'sed-expr' file> <prop> [check args...]
# Applies a change to a scratch copy of /repo's sources (never to /repo), runs ./check against the copy with
# evidence/replays/build redirected to the scratch dir, prints the tail, removes the scratch dir.
set -u
V=$(cd "$(dirname "$0")/.." && pwd)
S=$(mktemp -d /tmp/vkmut.XXXXXX)
mkdir -p $S/repo && cp -r /repo/lib /repo/src /repo/README.md /repo/ChangeLog $S/repo/ 
if [ "$1" = "-e" ]; then sed -i -e "$2" "$S/repo/$3" || exit 2; shift 3; (cd $S/repo && diff -ru /repo/lib lib | head -20; diff -ru /repo/src src | head -20)
else (cd $S/repo && patch -p1 -s < "$1") || { echo "patch failed"; rm -rf $S; exit 2; }; shift; fi
P=$1; shift
VK_REPO=$S/repo VK_BUILD=$S/build VK_EVIDENCE=$S/ev VK_REPLAYS=$S/rep "$V/check" $P "$@" > $S/out.txt 2>&1
rc=$?
grep -E "VIOLATION|UNDECIDED|ERROR|SUMMARY|KNOWN" $S/out.txt | cut -c1-400 | head -${MUT_LINES:-12}
echo "exit=$rc"
rm -rf $S
exit $rc
