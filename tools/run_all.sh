#!/bin/bash
# runs every property's check in the given tier, one after the other; prints a one-line result per property
cd "$(dirname "$0")/.."
tier=${1:-quick}; mkdir -p build
for p in ${VK_PROPS:-C03 C04 C09 C12 C13 C14 C16 C17 C15 C11 C06 C10 C01 C05 C02 C08 C07}; do
  t0=$(date +%s)
  ./check $p --tier $tier > build/run_$p.log 2>&1; rc=$?
  t1=$(date +%s)
  echo "$p rc=$rc $((t1-t0))s $(grep -E '^SUMMARY' build/run_$p.log | tail -1 | cut -c1-160)"
  grep -E "^(VIOLATION|UNDECIDED|ERROR|KNOWN)" build/run_$p.log | cut -c1-200 | head -5
done
