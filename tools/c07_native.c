/* native validation of the C07 oracle (harness/vk_dp_oracle.h, harness/vk_path.h) against the real kernels with the
 * real recursion: all pairs over NLET letters with la <= lb <= LMAX.  Used at setup (oracle must raise no alarm on
 * the unchanged tree) and for measuring which mutations the oracle can see.  Not a deciding step. */
#include <stdio.h>
#include <stdlib.h>
#include <string.h>
#include "tldevel.h"
#include "kalign/kalign.h"
#include "msa_struct.h"
#include "aln_param.h"
#include "aln_struct.h"
#include "aln_mem.h"
#include "aln_setup.h"
#include "aln_controller.h"
#define VK_LAMAX 6
#define VK_LBMAX 6
#include "../harness/vk_dp_oracle.h"
#include "../harness/vk_path.h"

int main(int argc, char **argv)
{
        int lmax = argc > 1 ? atoi(argv[1]) : 4;
        int nlet = argc > 2 ? atoi(argv[2]) : 4;
        int kcopies = getenv("VK_KCOPIES") ? atoi(getenv("VK_KCOPIES")) : 1;   /* > 1: sequence-profile kernel, profile of identical copies */
        int anylen = getenv("VK_ANYLEN") != NULL;                            /* profile side may be longer than the sequence */
        long fails = 0, total = 0;
        int types[5][2] = {{ALN_BIOTYPE_DNA, KALIGN_TYPE_DNA}, {ALN_BIOTYPE_DNA, KALIGN_TYPE_DNA_INTERNAL}, {ALN_BIOTYPE_DNA, KALIGN_TYPE_RNA},
                           {ALN_BIOTYPE_PROTEIN, KALIGN_TYPE_PROTEIN}, {ALN_BIOTYPE_PROTEIN, KALIGN_TYPE_PROTEIN_DIVERGENT}};
        int protlet[6] = {0, 4, 9, 17, 20, 22};   /* A C I W B X */
        for (int t = 0; t < 5; t++) {
                struct aln_param *ap = NULL;
                float pg = argc > 5 ? atof(argv[3]) : -1, pe = argc > 5 ? atof(argv[4]) : -1, pt = argc > 5 ? atof(argv[5]) : -1;
                if (aln_param_init(&ap, types[t][0], 1, types[t][1], pg, pe, pt) != OK) return 2;
                float tol = (types[t][1] == KALIGN_TYPE_RNA) ? 0.06f : 0.011f;
                if (argc > 5) tol += 2.0f * ap->gpo;   /* user penalties: the property's safe margin (2*gpo), see DESIGN.md C07 */
                long tf = 0, tt = 0;
                for (int la = 1; la <= lmax; la++) for (int lb = (anylen ? 1 : la); lb <= lmax; lb++) {
                        long n = 1; for (int k = 0; k < la + lb; k++) n *= nlet;
                        for (long code = 0; code < n; code++) {
                                uint8_t a[8], b[8]; long c = code;
                                for (int k = 0; k < la; k++) { a[k] = c % nlet; c /= nlet; }
                                for (int k = 0; k < lb; k++) { b[k] = c % nlet; c /= nlet; }
                                if (types[t][0] == ALN_BIOTYPE_PROTEIN) { for (int k = 0; k < la; k++) a[k] = protlet[a[k]]; for (int k = 0; k < lb; k++) b[k] = protlet[b[k]]; }
                                struct aln_mem *m = NULL;
                                alloc_aln_mem(&m, 256);
                                m->ap = ap; m->mode = ALN_MODE_FULL; m->len_a = la; m->len_b = lb;
                                m->seq1 = a; m->seq2 = b; m->prof1 = NULL; m->prof2 = NULL; m->run_parallel = 0;
                                float *profa = NULL; float F = 1.0f;
                                if (kcopies > 1) {
                                        /* profile of kcopies identical copies of a, built as do_align builds it */
                                        int dpath[16]; float *p2 = NULL, *p1 = NULL;
                                        make_profile_n(ap, a, la, &profa);
                                        dpath[0] = la; for (int q = 1; q <= la; q++) dpath[q] = 0; dpath[la + 1] = 3;
                                        for (int k = 1; k < kcopies; k++) { p2 = NULL; make_profile_n(ap, a, la, &p2); p1 = malloc(sizeof(float) * 64 * (la + 2)); update_n(profa, p2, p1, ap, dpath, k, 1); free(profa); free(p2); profa = p1; }
                                        set_gap_penalties_n(profa, la, 1);
                                        m->seq1 = NULL; m->prof1 = profa; m->sip = kcopies; F = (float)kcopies;
                                }
                                init_alnmem(m);
                                aln_runner(m);
                                tt++;
                                int ok = vk_path_valid(m->path, la, lb, VK_LAMAX);
                                if (ok) {
                                        static float flatS[23 * 23]; static float *rowsS[23];
                                        for (int q = 0; q < 23; q++) { rowsS[q] = &flatS[23 * q]; for (int r = 0; r < 23; r++) flatS[23 * q + r] = F * ap->subm[q][r]; }
                                        float hi = oracle_hi_path(rowsS, F * ap->gpo, F * ap->gpe, F * ap->tgpe, a, la, b, lb, m->path);
                                        float lo = oracle_lo_opt(rowsS, F * ap->gpo, F * ap->gpe, F * ap->tgpe, a, la, b, lb);
                                        if (kcopies > 1 && types[t][1] == KALIGN_TYPE_RNA) tol = 0.06f * F;
                                        if (!(hi + tol >= lo)) ok = 0;
                                        if (!ok && tf < 3) { printf("type %d la=%d lb=%d hi=%f lo=%f a=", t, la, lb, hi, lo); for (int k = 0; k < la; k++) printf("%d", a[k]); printf(" b="); for (int k = 0; k < lb; k++) printf("%d", b[k]); printf(" path="); for (int k = 1; k <= la; k++) printf("%d,", m->path[k]); printf("\n"); }
                                } else if (tf < 3) { printf("type %d la=%d lb=%d INVALID PATH a=", t, la, lb); for (int k = 0; k < la; k++) printf("%d", a[k]); printf(" b="); for (int k = 0; k < lb; k++) printf("%d", b[k]); printf(" path="); for (int k = 1; k <= la; k++) printf("%d,", m->path[k]); printf("\n"); }
                                if (!ok) tf++;
                                free_aln_mem(m);
                                if (profa) free(profa);
                        }
                }
                printf("type %d: %ld pairs, %ld oracle failures\n", t, tt, tf);
                fails += tf; total += tt;
                aln_param_free(ap);
        }
        printf("TOTAL %ld pairs %ld failures\n", total, fails);
        return fails ? 1 : 0;
}
