#!/usr/bin/env python3
"""Regenerates /verif/MANIFEST.json from the table below (keeps it schema-valid at all times)."""
import json, os, sys
V = os.path.dirname(os.path.dirname(os.path.abspath(__file__)))
TECH = "CBMC 6.11 bounded symbolic execution of the real C sources (goto-cc from /repo on every run); SAT back end decides all input values within the stated size bound"
CLAIMED = {
 "C09": dict(text="Bounded model checking, complete over its finite domain: aln_param_init for every (biotype, type) pair with arbitrary float penalties, set_aln_type on every string up to the length bound, run_kalign's argument plumbing with arbitrary stub answers. The solver decides all values; counterexamples are replayed natively.",
             note="Trusted: CBMC's C semantics and IEEE-754 model, empty-body message functions, a textbook strstr model; reference parameter tables written from README.md and the published matrices (sum / weighted-sum fingerprints). getopt parsing in main() is outside.",
             ref="DESIGN.md §4 C09"),
 "C14": dict(text="Bounded model checking: the three alphabets kalign_run uses are built by the real create_alphabet and the solver shows, for every letter and every case/T-U respelling of a sequence of bounded length, that convert_msa_to_internal yields the same defined class (< L) - everything downstream of the conversion reads only those classes.",
             note="Trusted: CBMC semantics, small-capacity msa objects, empty message functions. The DP itself is C07; kind detection for IUPAC-rich nucleotide input is outside (C13 premise).", ref="DESIGN.md §4 C14"),
 "C11": dict(text="Bounded model checking of lib/src/bpm.c: bpm_block equals a textbook semi-global DP for every text/pattern over 13 symbols up to the size bound (all length pairs enumerated), bpm and bpm_256 (AVX2 intrinsics modelled) equal bpm_block, calc_distance passes the longer sequence as text.",
             note="Trusted: CBMC bit-vector semantics; the AVX2 intrinsic model (difftested against hardware in setup). Patterns spanning several 64-bit blocks are only covered by mostly-concrete instances (thorough) - stated gap.", ref="DESIGN.md §4 C11"),
 "C10": dict(text="Inductive step decided by the solver: from ANY pre-state satisfying the row invariant and ANY valid column string, the real make_seq/update_gaps move every residue of a finished group to the image of its old column (whole gap columns only). One step covers merge histories of any length by induction over the guide tree.",
             note="Trusted: the invariant (gaps>=0, row length, no all-gap column) is what the previous step establishes - asserted as post-condition of the same harness; path validity contract asserted on the DP in C07. Sizes bounded (groups <=3+2, <=6 columns).", ref="DESIGN.md §4 C10"),
 "C01": dict(text="Bounded model checking of each stage between the DP path and the caller's rows: path completion for every valid path, the merge step from any valid state, gap-vector -> row rendering and the array API for symbolic residue bytes, zero-length removal and rank restoration with the real comparators.",
             note="Trusted: composition over the guide tree is a paper induction (DESIGN.md §5); qsort model; small-capacity msa objects; DP returns a valid path (C07). Writers are C15/C06.", ref="DESIGN.md §4 C01"),
 "C17": dict(text="Bounded model checking of lib/src/msa_cmp.c: compare_pair's six counters equal the definition for every pair of alignments of two sequences up to the width bound, and kalign_msa_compare's score equals 100*reproduced/reference relations (same double expression), lies in [0,100], is 100 for alignments equal up to row order and all-gap columns, for arbitrary row orders and names.",
             note="Trusted: qsort model over the real comparators, ctype tables of the real libc, CBMC's IEEE-754 division. <=3 rows, widths <=5; gap-free files excluded by the property.", ref="DESIGN.md §4 C17"),
 "C15": dict(text="Bounded model checking of the three writers: their output on an in-memory tape is parsed by an independent reader (FASTA 60-column wrapping, Clustal/MSF header, every sequence in every block, <=60 columns per line, separators), and the values handed to printf for the MSF header (length, molecule type, per-row and total GCG checksums) equal a reference computed from the GCG definition, for all row contents and both molecule kinds.",
             note="Trusted: the I/O model (fprintf/snprintf/fopen -> tape; integer rendering by libc), alloc_line_buffer stand-in installed by goto-instrument --replace-calls, qsort/ctype/strstr models. Name characters concrete (lengths enumerated); widths as listed incl. 59/60/61/120/121 (thorough).", ref="DESIGN.md §4 C15"),
 "C06": dict(text="Bounded model checking of write -> read: the real writer fills an in-memory tape, the tape is handed to the real detect_alignment_format and reader as the input buffer, and the solver shows for all row contents that the same rows, names, residues and gap vectors come back (FASTA, Clustal and MSF; small widths fully symbolic, width 61 with a symbolic window around the 60-column block edge; names that are proper prefixes of each other in both orders).",
             note="Trusted: I/O tape model with a layout oracle (deviations are reported), allocation models, qsort/ctype/str models. MSF instances fix the molecule kind per instance (both kinds run); names <= 3 characters, symbolic name characters for FASTA only.", ref="DESIGN.md §4 C06"),
 "C13": dict(text="SMT (z3 + cvc5, QF_LRA) over ALL character histograms of any size: with the letter models exported by the real detect_alphabet (guarded hook) and the participation mask probed from the real function, the solver shows that all-nucleotide input is always classified nucleotide and that >= 1/4 protein-only letters are always classified protein (U-rich case excluded as a recorded known finding), with an explicit IEEE rounding band; CBMC shows the function reads nothing but the histogram.",
             note="Trusted: linear structure of the function (re-validated against the real function on 3000+ histograms per run), rounding bound 130*2^-53, libm log as executed. One source hook (KALIGN_VERIF).", ref="DESIGN.md §4 C13",
             technique="z3/cvc5 QF_LRA over the linear decision function extracted from the running code on every run; CBMC for histogram-only dependence"),
 "C02": dict(text="Bounded model checking over ALL interleavings: the real recursive_aln and aln_runner, with their OpenMP task pragmas mechanically rewritten into CBMC threads (taskwait -> join on a per-frame counter), run on every concrete guide tree up to the leaf bound (short and >= 500-residue variants) and on a >= 500-row Hirschberg step for each kernel family; recorders in place of do_align / the DP kernels assert that no merge starts before both inputs are complete, every node is merged once, and the meet-in-the-middle step starts only after both halves finished on the right rectangle halves. Sequential CBMC runs of the real forward / backward passes with the other half's state array INVALID show the two concurrent halves have disjoint footprints.",
             note="Trusted: the pragma->thread rewrite (vk/omp.py, diffable, regenerated each run; per-merge DP memory dropped from the ordering model because CBMC refuses pointer stores into shared objects), CBMC's SC interleaving semantics. Outside: the real libgomp scheduler and weak memory (SC-for-DRF argument), trees > 4 leaves, k-means tasks, the distance-matrix loop, parallel regions executed by a whole team.", ref="DESIGN.md §4 C02"),
 "C03": dict(text="Bounded model checking: the real canonical-sort comparator is a strict total order on distinct (length, name) records and the sorted array is identical for every (symbolic) permutation of the input; rank restoration returns the caller's order; UPGMA on a symbolic matrix is deterministic and joins the first strict minimum in canonical scan order; pairwise distances do not read the caller's rank.",
             note="Trusted: qsort model (any conforming qsort agrees once the comparator is a strict order - which is what is proved), names <= 2 bytes, <= 4 records / 4x4 matrices; >= 100 sequences (k-means seeds) outside.", ref="DESIGN.md §4 C03"),
 "C04": dict(text="Bounded model checking: (O1) the real FASTA reader agrees, for every byte sequence within the line bound, with an independent normal form (letters kept in order, punctuation counted as gaps at its position, everything else ignored, histogram = characters of the sequence lines) - so wrapping, blank lines and padding cannot matter; (O2) kalign_run's orchestration with every stage a recorder: input whose status is not UNALIGNED is de-aligned before anything else reads it, and detect_aligned / dealign_msa classify and clear symbolic gap vectors as documented; (O4) merge_msa concatenates the records of several inputs in order with summed histograms.",
             note="Trusted: stage stubs stand for the real stages (each checked in its own property); allocation model for readers. Not decided: Clustal / MSF normal forms (those readers give no verdict in the budget), main()'s stdin / multi-file plumbing, > 3 records for status detection.", ref="DESIGN.md §4 C04"),
 "C05": dict(text="CBMC's memory-safety and UB checks (bounds, pointer validity, NULL, double free, signed overflow, shifts, leaks) on the real raw-input stage (getline stub delivering arbitrary bytes), on the real FASTA reader over every byte sequence within the line bound together with a functional normal-form oracle (accept / reject exactly as documented), on the alphabet conversion for every letter, on the array entry point, on the allocate / resize / free life cycles of every library object (incl. the input check dropping empty records, and member lists rebuilt for a growing count) and on the command-line glue incl. main()'s option switch; failures must be reported as FAIL.",
             note="Trusted: input-buffer construction as read_file_stdin would build it, allocation model for reader harnesses, ctype tables. Clustal/MSF/auto-detected readers are only attempted in the thorough tier (no verdict within 1500 s at 3 lines x 3 bytes); getopt and real file descriptors outside.", ref="DESIGN.md §4 C05"),
 "C07": dict(text="Bounded model checking end to end with IEEE floats bit-precise: the Hirschberg recursion of the real sequence-sequence kernels is explored as a tree of split decisions, the solver enumerating for each step on a concrete rectangle every way the real aln_continue can split (UNSAT = enumeration complete for all residues) and, at every leaf, proving for all residues that the returned path is valid and scores within the safe margin of an independent full-matrix optimum.",
             note="Trusted: worklist stub in place of the recursive calls (goto-instrument --replace-calls; validated natively against the real recursion), HIGH/LOW bracket oracle (validated natively on 63.5M pairs), 4 letters per alphabet, sizes <= 3x3 quick / 4x5 thorough; profile kernels and the >= 500-column parallel branch are outside.", ref="DESIGN.md §4 C07",
             technique="CBMC 6.11 bounded symbolic execution of the real kernels per Hirschberg step, solver-driven enumeration of split decisions (vk/split.py), MiniSat"),
 "C08": dict(text="Same exploration as C07 with the second sequence constrained equal to the first: at every leaf the solver proves the path is the diagonal for all residue strings of the bounded length; UPGMA on an all-equal distance matrix yields a full binary tree over all leaves.",
             note="Trusted: as C07. The bisecting k-means fallback for >= 100 indistinguishable sequences and lengths > 3 (quick) / 4 (thorough) are outside; 'no gap for any number of copies' composes with C10.", ref="DESIGN.md §4 C08",
             technique="CBMC 6.11 decision-split exploration (vk/split.py) + UPGMA harness"),
 "C12": dict(text="Two solver-decided lemmas: (L1) the real pairwise distance code gives equal sequences a distance <= 1 with identical rows and sequences not contained in one another a distance >= 1 + length term, symmetric and independent of ranks; (L2) on any distance matrix with that structure the real UPGMA puts the copies of one sequence into one clade. With C08 (equal groups align on the diagonal) and C10 (finished groups move together) this gives identical rows.",
             note="Trusted: the composition L1 -> L2 -> C08 -> C10 is a paper argument (DESIGN.md §5); lengths <= 4, <= 5 leaves.", ref="DESIGN.md §4 C12"),
 "C16": dict(text="Bounded model checking of the three ingredients of history independence: (O1) --nondet-static twins of unit harnesses (every static-storage object starts arbitrary) still hold; (O2) self-composition of the array entry point over CBMC's nondeterministic fresh heap shows every output field is a function of the arguments; (O3) every allocate/resize/free life cycle ends with no live allocation (memory-leak check) and no double free.",
             note="Trusted: reduction of 'any call history' to per-call functional dependence + no writable statics + paired allocation (DESIGN.md §5); detect_alphabet replaced by a same-answer stand-in in O2 (its own dependence is C13-O3).", ref="DESIGN.md §4 C16"),
}
NA_REASON = "check not built yet in this revision (see DESIGN.md §4 for the planned harness); not claimed until its quick tier passes on the unchanged tree"

def main():
    props = [json.loads(l) for l in open(os.path.join(V, "properties.jsonl"))]
    checks, na = [], []
    for p in props:
        pid = p["id"]
        if pid in CLAIMED:
            c = CLAIMED[pid]
            checks.append({"property_id": pid, "quick_cmd": "./check %s --tier quick" % pid,
                           "thorough_cmd": "./check %s --tier thorough" % pid,
                           "evidence_file": "/verif/evidence/%s.json" % pid,
                           "replay_cmd_template": "./check %s --replay {path}" % pid,
                           "engine": "cbmc",
                           "level_claimed": {"category": "model_checking", "text": c["text"], "design_ref": c["ref"]},
                           "level_note": c["note"], "technique": c.get("technique", TECH)})
        else:
            na.append({"property_id": pid, "reason": NA.get(pid, NA_REASON)})
    m = {"version": 1,
         "setup_cmd": "./setup.sh",
         "hooks": {"guard": "KALIGN_VERIF", "enable": "checks compile /repo sources with goto-cc/gcc and -DKALIGN_VERIF (no cmake build is involved)",
                   "baseline_off_cmd": "cmake -G Ninja -S /repo -B /repo/_build >/dev/null && cmake --build /repo/_build >/dev/null && ctest --test-dir /repo/_build -j8 --timeout 900",
                   "source_commits": HOOK_COMMITS, "add_only": True},
         "engines": [{"name": "cbmc", "path": "/verif/vk/core.py", "serves_properties": sorted(CLAIMED),
                      "kind_free_text": "bounded model checker for C (CBMC 6.11.0 + MiniSat/kissat/cadical), driven per (harness, size tuple) instance; z3/cvc5 for the one linear-arithmetic encoding (C13)"}],
         "checks": checks, "not_applicable": na,
         "notes": "All checks regenerate their encodings from /repo's working tree on every run. Known findings: /verif/known_findings.json."}
    json.dump(m, open(os.path.join(V, "MANIFEST.json"), "w"), indent=1)
    print("MANIFEST.json: %d checks, %d not_applicable" % (len(checks), len(na)))

NA = {}
HOOK_COMMITS = ["236f767"]
if __name__ == "__main__":
    main()
