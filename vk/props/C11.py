"""C11 - the bit-parallel distance kernel equals the edit distance it stands for."""
from vk.core import Inst, HARNESS
import os

META = {
    "stubs": ["AVX2 intrinsics: harness/shim/vk_avx2_model.h (17 intrinsics from Intel pseudo-code; differential-tested against the hardware in setup.sh)",
              "error/warning: empty bodies"],
    "outside": ["fully symbolic patterns spanning two or more 64-bit blocks (probed: no verdict in 40 min; only mostly-concrete block-boundary instances are decided)",
                "lengths above the listed size tuples", "real AVX2 silicon (trusted through the shim difftest)"],
    "assumptions": ["symbols are residue classes 0..12 (guaranteed by convert_msa_to_internal, C05/C14)"],
}

def _mk(mode, n, m, ob, extra=None, **kw):
    defs = {"VK_MODE": mode, "VK_TN": n, "VK_PM": m}
    if extra:
        defs.update(extra)
    bmax = max(1, (min(m, 1024) + 63) // 64)
    unwind = max(64 * bmax + n + 4, 70)
    srcs = ["lib/src/bpm.c"] + (["lib/src/sequence_distance.c"] if mode in (4, 6) else [])
    cflags, d2 = [], {"NOHAVE_AVX2": None}
    if mode == 3:
        cflags = ["-I" + os.path.join(HARNESS, "shim")]
        d2 = {"HAVE_AVX2": None}
    defs.update(d2)
    name = kw.pop("name", "m%d_n%d_m%d" % (mode, n, m))
    return Inst(ob=ob, name=name, harness="c11_bpm.c", defs=defs, srcs=srcs, cflags=cflags,
                models=["models/vin.c", "models/msg.c"] + (["models/galloc_stub.c"] if mode in (4, 6) else []),
                native_srcs=["lib/src/tldevel.c"],
                unwind=unwind, unwind_pat=[("bpm_block", r"b <= y", bmax + 1), ("bpm_block", r"while \(score\[y\]", bmax + 1),
                                           ("bpm_block", r"block < b_max", bmax + 1), ("bpm_block", r"int c = 0; c < SIGMA", 14)],
                nb=max(n + m, 16), timeout=kw.pop("timeout", 600), mem_gb=kw.pop("mem_gb", 4),
                funcs={1: ["bpm_block"], 5: ["bpm_block"], 2: ["bpm", "bpm_block"], 3: ["bpm_256", "add256", "bitShiftLeft256ymm", "set_broadcast_mask", "bpm_block"],
                       4: ["calc_distance", "bpm_block"], 6: ["calc_distance", "bpm_block", "bpm"]}[mode],
                bound="text length %d, pattern length %d, all contents over 13 classes" % (n, m), cost=n * m, **kw)

def instances(tier):
    out = []
    nmax1 = 6 if tier == "quick" else 9
    for n in range(1, nmax1 + 1):
        for m in range(1, n + 1):
            out.append(_mk(1, n, m, "O1", desc="bpm_block == DP reference, n=%d m=%d" % (n, m)))
    nmax2 = 5 if tier == "quick" else 7
    for n in range(1, nmax2 + 1):
        for m in range(1, n + 1):
            if tier == "quick" and (n, m) not in ((1, 1), (2, 2), (3, 2), (4, 3), (4, 4), (5, 3), (5, 5)):
                continue
            out.append(_mk(2, n, m, "O2", desc="bpm == bpm_block, n=%d m=%d" % (n, m)))
            out.append(_mk(3, n, m, "O2", desc="bpm_256 (AVX2 shim) == bpm_block, n=%d m=%d" % (n, m)))
    for n, m in ((2, 1), (3, 3), (3, 2)) if tier == "quick" else ((2, 1), (2, 2), (3, 1), (3, 2), (3, 3), (4, 2), (4, 4), (5, 3)):
        out.append(_mk(4, n, m, "O3", desc="calc_distance argument order, lengths %d/%d" % (n, m)))
    # word-boundary instances: constant backdrop, symbolic windows of 2 symbols at both ends of text and pattern
    bd = {"VK_BACKDROP": None, "VK_W1": 2, "VK_W2": 2, "VK_BD_A": 0, "VK_BD_B": 2, "VK_BD_MOD": 13}
    edge = [(6, 65, 64), (6, 64, 63), (2, 64, 63), (3, 34, 33)] if tier == "quick" else [(3, 34, 33), (3, 40, 32), (6, 65, 64), (6, 64, 63), (6, 66, 65), (6, 64, 64), (2, 64, 63), (2, 63, 62), (3, 130, 129), (3, 129, 128), (3, 66, 65), (3, 200, 192)]
    # distances above 255 (a narrow integer anywhere between the kernel and the float matrix would wrap): text and pattern
    # backdrops of different symbols, so the distance is about the pattern length
    far = dict(bd, VK_BD_B2=5, VK_W1=0, VK_W2=2, VK_PW1=0, VK_PW2=0)
    for n, m in ([(322, 320)] if tier == "quick" else [(322, 320), (260, 257), (300, 256), (580, 576)]):   # pattern = whole 64-symbol blocks: no padding iterations after the symbolic text tail
        i = _mk(6, n, m, "O4", extra=far, name="far_m6_n%d_m%d" % (n, m), timeout=900 if tier == "quick" else 3600, mem_gb=10)
        i.nb = 16
        i.flags = list(i.flags) + ["--max-field-sensitivity-array-size", "600"]   # reads of the (mostly concrete) text / pattern arrays stay concrete
        i.bound = "text %d of symbol 2, pattern %d of symbol 5 (distance about %d), last 2 symbols of the text symbolic over 13 classes (partially symbolic instance)" % (n, m, m)
        out.append(i)
    for mode, n, m in edge:
        i = _mk(mode, n, m, "O4", extra=bd, name="edge_m%d_n%d_m%d" % (mode, n, m), timeout=900 if tier == "quick" else 3600, mem_gb=10)
        i.nb = 16
        i.flags = list(i.flags) + ["--max-field-sensitivity-array-size", "600"]   # reads of the mostly concrete text / pattern arrays stay concrete
        i.bound = "text %d, pattern %d: constant backdrop, first 2 and last 2 symbols of text and pattern symbolic over 13 classes (partially symbolic instance)" % (n, m)
        out.append(i)
    return out
