"""C09 - the scoring parameters used are exactly the ones the caller selected."""
from vk.core import Inst

META = {
    "stubs": ["error/warning/log_message: empty bodies (models/msg.c)"],
    "outside": ["getopt_long_only option parsing in main()", "end-to-end alignment equality (composition with C07)"],
    "assumptions": ["each penalty argument is either -1 (not given) or a finite float in [0,1e30]",
                    "malloc does not fail (--no-malloc-may-fail)"],
}

def instances(tier):
    out = []
    for bt, btn in ((1, "dna"), (0, "prot")):
        for ty in range(6):
            out.append(Inst(ob="O1", name="param_%s_t%d" % (btn, ty), harness="c09_param.c",
                            defs={"BIOTYPE": bt, "TYPE": ty}, srcs=["lib/src/aln_param.c"],
                            models=["models/vin.c", "models/msg.c"], native_srcs=["lib/src/tldevel.c"],
                            unwind=25, ni=3, nf=3, timeout=300, mem_gb=3,
                            funcs=["aln_param_init", "set_subm_gaps_*", "aln_param_free"],
                            bound="complete: biotype x type concrete, penalties arbitrary floats (-1 or >=0)",
                            desc="aln_param_init defaults/overrides for biotype=%s type=%d" % (btn, ty)))
    for bt, btn in ((1, "dna"), (0, "prot"), (2, "undef"), (7, "other")):
        if tier == "quick" and bt in (0, 1):
            continue  # 250-280 s each (five parameter sets merged under a symbolic switch): thorough tier
        out.append(Inst(ob="O1", name="param_%s_tsym" % btn, harness="c09_param.c", defs={"SYM_TYPE": None, "BIOTYPE": bt},
                        srcs=["lib/src/aln_param.c"], models=["models/vin.c", "models/msg.c"],
                        native_srcs=["lib/src/tldevel.c"], unwind=25, ni=3, nf=3, timeout=600, mem_gb=4,
                        funcs=["aln_param_init"], bound="type = any int outside 0..5",
                        desc="aln_param_init with biotype=%s and symbolic type outside 0..5" % btn))
    for n in ((3, 8, 9) if tier == "quick" else (1, 2, 3, 4, 5, 6, 7, 8, 9, 10, 12)):
        out.append(Inst(ob="O2", name="settype_len%d" % n, harness="c09_cli.c", defs={"OB_O2": None, "STRLEN": n, "VK_STR_MAX": 16},
                        models=["models/vin.c", "models/msg.c", "models/str.c"], native_srcs=["lib/src/tldevel.c"],
                        unwind=18, nb=n, timeout=600, mem_gb=4, funcs=["set_aln_type"],
                        bound="--type argument: any string of exactly/at most %d bytes (NUL may occur earlier)" % n,
                        desc="set_aln_type on an arbitrary %d-byte string" % n))
    for nf in (1, 2, 3):
        out.append(Inst(ob="O3", name="plumbing_files%d" % nf, harness="c09_cli.c", defs={"OB_O3": None, "NFILES": nf},
                        models=["models/vin.c", "models/msg.c", "models/str.c"], native_srcs=["lib/src/tldevel.c"],
                        unwind=6, nb=5, ni=2, nf=3, timeout=300, mem_gb=3, funcs=["run_kalign", "init_param", "free_parameters"],
                        bound="%d input files; library calls answer OK/FAIL arbitrarily" % nf,
                        desc="run_kalign argument plumbing with %d input files" % nf))
    out.append(Inst(ob="O4", name="main_options", harness="c09_cli.c", defs={"OB_O4": None, "VK_STR_MAX": 16},
                    models=["models/vin.c", "models/msg.c", "models/str.c"], native_srcs=["lib/src/tldevel.c"],
                    unwind=18, nb=1, ni=6, nf=3, timeout=300, mem_gb=4, replay="solver", flags=["--object-bits", "12"], funcs=["main (option switch)", "set_aln_type", "check_msa_format_string", "run_kalign"],
                    bound="up to three options out of --gpo --gpe --tgpe --type -n with arbitrary numeric values, one positional input file",
                    desc="option values reach kalign_run as the numbers the user wrote (getopt scripted, atof/atoi uninterpreted per argument)"))
    return out
