"""C14 - letter case and RNA/DNA spelling do not influence the alignment."""
from vk.core import Inst

META = {
    "stubs": ["error/warning/log_message: empty bodies", "msa objects built with small capacities (vk_msa.h) instead of alloc_msa's 512-element buffers"],
    "outside": ["nucleotide inputs with IUPAC codes other than N (their kind detection may differ between spellings; C13 premise)",
                "the DP itself (C07) - here only: everything downstream reads the class codes s[], which are proved spelling-independent"],
    "assumptions": ["sequence bytes are ASCII letters (the readers store only isalpha bytes)"],
}

def alpha_instances(tier, ob="O1", prefix="alpha"):
    out = []
    for alpha in (5, 13, 23):
        for ln in ((2,) if tier == "quick" else (1, 2, 3, 4)):
            out.append(Inst(ob=ob, name="%s_a%d_len%d" % (prefix, alpha, ln), harness="c14_alpha.c", defs={"ALPHA": alpha, "LEN": ln},
                            srcs=["lib/src/alphabet.c", "lib/src/msa_op.c"], models=["models/vin.c", "models/msg.c", "models/msa_stub.c"],
                            native_srcs=["lib/src/tldevel.c", "lib/src/msa_alloc.c"],
                            unwind=130, nb=2 * ln, timeout=300, mem_gb=3,
                            funcs=["create_alphabet", "create_default_DNA", "create_reduced_protein", "create_protein_BZX", "merge_codes",
                                   "clean_and_set_to_extern", "convert_msa_to_internal"],
                            bound="alphabet %d; sequence of %d arbitrary letters; arbitrary case-flip/T-U pattern" % (alpha, ln),
                            desc="alphabet %d tables + convert_msa_to_internal on two spellings" % alpha))
    return out

def instances(tier):
    out = alpha_instances(tier)
    out.append(Inst(ob="O3", name="sort_ignores_letters", harness="c03_sort.c", defs={"VK_NS": 2, "VK_QSORT_MAX": 2, "VK_EQNAMES": None},
                    models=["models/vin.c", "models/msg.c", "models/qsort.c", "models/str.c"], native_srcs=["lib/src/tldevel.c", "lib/src/tlrng.c"],
                    unwind=18, nb=6, ni=2, timeout=300, mem_gb=4, funcs=["sort_by_len_name"],
                    bound="two records with arbitrary (possibly equal) lengths and 2-byte names; residue buffers invalid",
                    desc="the canonical order never reads residue letters"))
    return out
