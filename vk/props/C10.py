"""C10 - progressive merging never re-aligns a finished sub-alignment."""
from vk.props.shared import weave_instances, doalign_instances

META = {
    "stubs": ["error/warning: empty bodies", "msa objects built with small capacities (vk_msa.h)"],
    "outside": ["composition over the guide tree (induction argued in DESIGN.md section 5)", "row lengths above the listed size tuples",
                "the DP path itself (C07): here the column string is an arbitrary valid one"],
    "assumptions": ["pre-state satisfies the row invariant (gaps >= 0, len + sum(gaps) = row length, no all-gap column inside a group)",
                    "column string has exactly PLA columns of kind aligned/a-only and PLB of kind aligned/b-only"],
}

def instances(tier):
    return weave_instances(tier, "O1", "weave") + doalign_instances(tier, "O2", "doalign")
