"""C08 - identical sequences are aligned without gaps."""
import os
from vk import core, split
from vk.props import C07
from vk.props.C03 import upgma_inst

META = dict(C07.META)
META["outside"] = ["lengths above the listed tuples", "the bisecting k-means fallback for >= 100 indistinguishable sequences (split2: float k-means loop, not decided here)",
                   "profile kernels: composition with C10 (groups of identical copies move together)"]


def run(tier, seed, only):
    # O1: seq-seq DP on b == a (decision split, diagonal asserted at every leaf)
    cfgs = C07.configs(tier, prop="C08", equal=True)
    rc = C07.run_split("C08", tier, seed, only, cfgs, META, "C08-O1")
    # O3: UPGMA on an all-equal matrix gives a full binary tree over all leaves
    insts = [upgma_inst(3, n, "O3", "upgma_equal") for n in ((3, 4) if tier == "quick" else (2, 3, 4, 5, 6))]
    from vk.core import Inst
    # no verdict within 600 s at 4 samples x 2 anchors (float division + sqrtf): thorough-tier attempts only
    for ns, na, seed in ([] if tier == "quick" else [(4, 2, 0), (4, 2, 3), (5, 2, 1), (6, 2, 2), (5, 3, 0), (7, 2, 3)]):
        insts.append(Inst(ob="O2", name="split2_n%d_a%d_s%d" % (ns, na, seed), harness="c08_split2.c", defs={"VK_NS": ns, "VK_NA": na, "VK_SEED": seed, "NOHAVE_AVX2": None},
                          srcs=["lib/src/euclidean_dist.c"], models=["models/vin.c", "models/msg.c", "models/stopwatch_stub.c"],
                          native_srcs=["lib/src/tldevel.c", "lib/src/task.c", "lib/src/sequence_distance.c", "lib/src/bpm.c", "lib/src/pick_anchor.c", "lib/src/esl_stopwatch.c", "lib/src/tlrng.c"],
                          unwind=10, unwind_pat=[("split2", r"stop < 500", 4)], nf=na, timeout=600 if tier == "quick" else 3600, mem_gb=10, solver="kissat",
                          funcs=["split2", "edist_serial", "cmp_floats", "alloc_kmeans_result"], cost=ns * 100,
                          bound="%d indistinguishable samples, %d anchors, seed %d; common distance vector symbolic; refinement loop proved to stop within 3 rounds" % (ns, na, seed),
                          desc="k-means split of indistinguishable sequences yields two non-empty halves"))
    # identical copies go through the profile kernels from the third copy on: those kernels equal the sequence-sequence
    # kernel (whose diagonal result is decided above) step by step - C07's kernel differential
    import dataclasses
    insts += [dataclasses.replace(i, ob="O1") for i in C07.kdiff_instances(tier) if "_sp2_" in i.name or tier != "quick"]
    return C07.combine("C08", tier, seed, only, rc, insts, META)
