"""C08 - identical sequences are aligned without gaps."""
import os
from vk import core, split
from vk.props import C07
from vk.props.C03 import upgma_inst

META = dict(C07.META)
META["outside"] = ["lengths above the listed tuples", "the bisecting k-means fallback for >= 100 indistinguishable sequences (split2: float k-means loop, not decided here)",
                   "profile kernels: composition with C10 (groups of identical copies move together)"]


def run(tier, seed, only):
    # O1: seq-seq DP on b == a (decision split, diagonal asserted at every leaf)
    cfgs = C07.configs(tier, prop="C08", equal=True)
    rc = C07.run_split("C08", tier, seed, only, cfgs, META, "C08-O1")
    # O3: UPGMA on an all-equal matrix gives a full binary tree over all leaves
    insts = [upgma_inst(3, n, "O3", "upgma_equal") for n in ((3, 4) if tier == "quick" else (2, 3, 4, 5, 6))]
    import json
    ev_path = os.path.join(core.EVIDENCE, "C08.json")
    ev1 = json.load(open(ev_path))
    os.rename(ev_path, ev_path + ".o1")
    build_o1 = os.path.join(core.BUILD, "C08")
    os.rename(build_o1, build_o1 + "_o1") if os.path.isdir(build_o1) and not os.path.isdir(build_o1 + "_o1") else None
    rc2 = core.run_property("C08", tier, insts, META, seed, only)
    ev2 = json.load(open(ev_path))
    ev2["coverage"]["split_exploration"] = ev1["coverage"]
    ev2["coverage"]["evaluations"] += ev1["coverage"]["evaluations"]
    ev2["coverage"]["distinct_nontrivial"] += ev1["coverage"]["distinct_nontrivial"]
    ev2["coverage"]["obligations"] += ev1["coverage"]["obligations"]
    ev2["coverage"]["discharged"] += ev1["coverage"]["discharged"]
    ev2["violations"] += ev1["violations"]
    ev2["wall_s"] += ev1["wall_s"]
    json.dump(ev2, open(ev_path, "w"), indent=1)
    os.remove(ev_path + ".o1")
    import shutil
    shutil.rmtree(build_o1 + "_o1", ignore_errors=True)
    return 1 if (rc == 1 or rc2 == 1) else (rc or rc2)
