"""C17 - the alignment-comparison score is exact."""
from vk.core import Inst
from vk.props.shared import MK_MSA_UNWIND

META = {
    "stubs": ["qsort model over the real comparators", "ctype tables from the real libc", "error/warning: empty bodies", "small-capacity msa objects"],
    "outside": ["gap-free files (excluded by the property)", "more than 3 rows / widths above the listed tuples", "reading the two alignments from files (C04/C06)"],
    "assumptions": ["both alignments contain the same uniquely named sequences (premise of the property)", "rows consist of letters and non-letter gap characters"],
}

def instances(tier):
    out = []
    t1 = [(1, 1, 2, 2), (2, 2, 3, 4), (2, 3, 4, 4), (3, 2, 4, 5)] if tier == "quick" else \
         [(l1, l2, wa, wb) for l1 in (1, 2, 3) for l2 in (1, 2, 3) for wa in range(max(l1, l2), 6) for wb in range(max(l1, l2), 6) if wa <= wb]
    for l1, l2, wa, wb in t1:
        out.append(Inst(ob="O1", name="pair_l%d_%d_w%d_%d" % (l1, l2, wa, wb), harness="c17_cmp.c",
                        defs={"VK_MODE": 1, "VK_L1": l1, "VK_L2": l2, "VK_WA": wa, "VK_WB": wb},
                        srcs=["lib/src/msa_check.c"], models=["models/vin.c", "models/msg.c", "models/qsort.c", "models/ctype.c", "models/msa_op_stub.c"],
                        native_srcs=["lib/src/tldevel.c", "lib/src/msa_op.c", "lib/src/msa_alloc.c", "lib/src/alphabet.c"],
                        unwind=max(wa, wb) + 3, unwind_pat=MK_MSA_UNWIND, nb=2 * (wa + wb) + 2, ni=4, timeout=600, mem_gb=4,
                        funcs=["compare_pair"], cost=wa * wb,
                        bound="two sequences with %d/%d residues, alignment widths %d (reference) and %d (test); all gap placements symbolic" % (l1, l2, wa, wb),
                        desc="compare_pair counters vs definition"))
    t2 = [(2, (1, 2), 2, 3), (3, (1, 2, 1), 3, 3), (3, (2, 2, 1), 3, 4)] if tier == "quick" else \
         [(2, (1, 2), 2, 3), (2, (2, 2), 3, 4), (2, (3, 2), 4, 5), (3, (1, 2, 1), 3, 3), (3, (2, 2, 1), 3, 4), (3, (2, 3, 2), 4, 4), (3, (2, 2, 2), 4, 5)]
    for ns, lens, wa, wb in t2:
        d = {"VK_MODE": 2, "VK_NS": ns, "VK_WA": wa, "VK_WB": wb, "VK_L1": lens[0], "VK_L2": lens[1], "VK_QSORT_MAX": ns}
        if ns > 2:
            d["VK_L3"] = lens[2]
        out.append(Inst(ob="O2", name="score_ns%d_%s_w%d_%d" % (ns, "".join(map(str, lens)), wa, wb), harness="c17_cmp.c", defs=d,
                        srcs=["lib/src/msa_check.c"], models=["models/vin.c", "models/msg.c", "models/qsort.c", "models/ctype.c", "models/msa_op_stub.c"],
                        native_srcs=["lib/src/tldevel.c", "lib/src/msa_op.c", "lib/src/msa_alloc.c", "lib/src/alphabet.c"],
                        unwind=max(wa, wb, ns) + 3, unwind_pat=MK_MSA_UNWIND, nb=ns * (wa + wb + 3) + 2, ni=2 * ns, timeout=900, mem_gb=6,
                        funcs=["kalign_msa_compare", "compare_pair", "kalign_check_msa", "kalign_sort_msa", "sort_by_both", "sort_by_name", "sort_by_chksum", "GCGchecksum"],
                        cost=ns * wa * wb * 3,
                        bound="%d rows with %s residues, widths %d/%d, arbitrary gap placement, row orders and names" % (ns, lens, wa, wb),
                        desc="kalign_msa_compare score vs definition, any row order"))
    t3 = [(2, (1, 2), 2, 1), (3, (2, 1, 2), 3, 1)] if tier == "quick" else [(2, (1, 2), 2, 1), (2, (2, 2), 3, 2), (3, (2, 1, 2), 3, 1), (3, (2, 2, 2), 3, 2), (3, (3, 2, 2), 4, 1)]
    for ns, lens, wa, k in t3:
        d = {"VK_MODE": 3, "VK_NS": ns, "VK_WA": wa, "VK_WB": wa + k, "VK_K": k, "VK_L1": lens[0], "VK_L2": lens[1], "VK_QSORT_MAX": ns}
        if ns > 2:
            d["VK_L3"] = lens[2]
        out.append(Inst(ob="O2", name="same_ns%d_%s_w%d_k%d" % (ns, "".join(map(str, lens)), wa, k), harness="c17_cmp.c", defs=d,
                        srcs=["lib/src/msa_check.c"], models=["models/vin.c", "models/msg.c", "models/qsort.c", "models/ctype.c", "models/msa_op_stub.c"],
                        native_srcs=["lib/src/tldevel.c", "lib/src/msa_op.c", "lib/src/msa_alloc.c", "lib/src/alphabet.c"],
                        unwind=max(wa + k, ns) + 3, unwind_pat=MK_MSA_UNWIND, nb=ns * (2 * wa + k + 3) + 2, ni=ns + 1, timeout=900, mem_gb=6,
                        funcs=["kalign_msa_compare", "compare_pair", "kalign_check_msa", "kalign_sort_msa"], cost=ns * wa * (wa + k) * 3,
                        bound="%d rows, reference width %d, test = reference + %d all-gap columns at arbitrary places, rows permuted" % (ns, wa, k),
                        desc="identical alignments up to row order and all-gap columns score 100"))
    return out
