"""C12 - duplicate input sequences receive identical rows."""
from vk.core import Inst
from vk.props.C03 import upgma_inst
from vk.props.shared import MK_MSA_UNWIND, BPM_UNWIND

META = {
    "stubs": ["error/warning: empty bodies"],
    "outside": [">= 100 sequences (premise of the property)", "sequence lengths > 4 for the distance lemma", "the chain L1 -> L2 -> C08 -> C10 is a paper composition (DESIGN.md section 5)"],
    "assumptions": ["the copies' pairwise distances are equal and <= 1, their distances to every other sequence are equal and >= 1 + d/2 (established by lemma L1 + C11 under the containment premise)"],
}

def dist_instances(tier, ob="L1"):
    out = []
    lens = [(2, 2), (3, 3), (3, 2), (4, 2)] if tier == "quick" else [(a, b) for a in (1, 2, 3, 4) for b in (1, 2, 3, 4) if a >= b] + [(3, 3, 2), (2, 2, 2)]
    for ls in lens:
        d = {"VK_NS": len(ls), "NOHAVE_AVX2": None}
        for k, l in enumerate(ls):
            d["VK_LEN%d" % k] = l
        out.append(Inst(ob=ob, name="dist_%s" % "_".join(map(str, ls)), harness="c12_dist.c", defs=d,
                        srcs=["lib/src/sequence_distance.c", "lib/src/bpm.c"], models=["models/vin.c", "models/msg.c"],
                        pre_link=[(["lib/src/tldevel.c"], [], ["--remove-function-body", "error", "--remove-function-body", "warning", "--remove-function-body", "log_message"])],
                        native_srcs=["lib/src/tldevel.c"], unwind=70, unwind_pat=MK_MSA_UNWIND + BPM_UNWIND, nb=4 * len(ls), ni=3, timeout=900, mem_gb=6,
                        funcs=["d_estimation", "calc_distance", "bpm_block", "alloc_2D_array_size_float"], cost=sum(ls) * 4,
                        bound="%d sequences of lengths %s over 13 classes, all contents and all ranks symbolic" % (len(ls), ls),
                        desc="distance lemma: equal -> <= 1, not contained -> >= 1 + length term, symmetric, independent of the caller's ranks"))
    return out


def instances(tier):
    out = []
    masks = [(3, 0b011), (3, 0b101), (3, 0b110), (4, 0b0011), (4, 0b1010), (4, 0b0111)] if tier == "quick" else \
            [(n, m) for n in (3, 4, 5) for m in range(3, 1 << n) if bin(m).count("1") in (2, 3) and bin(m).count("1") < n]
    for ns, m in masks:
        i = upgma_inst(2, ns, "L2", "clade", timeout=900)
        i.defs["VK_CMASK"] = m
        i.name = "clade_n%d_c%x" % (ns, m)
        i.nf = ns * (ns - 1) // 2 + 1
        i.bound = "%d leaves, copies = index mask 0x%x, all other distances symbolic" % (ns, m)
        out.append(i)
    out += dist_instances(tier)
    # L1 also needs the kernel's value to reach the distance matrix unchanged when it is large (> 255): C11's far-apart instances
    import dataclasses
    from vk.props import C11
    out += [dataclasses.replace(i, ob="L1") for i in C11.instances(tier) if i.name.startswith("far_")]
    return out
