"""C07 - the DP kernels return the optimum whenever it is certifiably unique (decision-split exploration)."""
import json
import os, dataclasses
import time
import concurrent.futures as cf

from vk import core, split

META = {
    "stubs": ["recursion of aln_continue -> worklist (goto-instrument --replace-calls aln_runner_serial:vstub_push on the compiled aln_controller.c); each step is the REAL aln_runner_serial on a concrete rectangle",
              "substitution matrix copied into one flat object with 23 row pointers (same values)", "error/warning: empty bodies"],
    "outside": ["sequence lengths above the listed size tuples", "optimality oracle on the profile kernels beyond the listed split configs (their equality with the sequence-sequence kernel is decided step by step by the kernel differential up to 3x3 / 4x3 rectangles, groups of 2 or 4 identical copies); groups of NON-identical sequences",
                "the >= 500-column parallel branch of aln_runner with symbolic data (orchestration: C02)",
                "errors confined to extending a gap of length >= 2 inside the shorter sequence do not change any optimum at these sizes (known blind spot of the bracket oracle)"],
    "assumptions": ["len_a <= len_b (do_align passes the shorter sequence first)", "residues drawn from 4 letters of the alphabet (matrix read through a symbolic index)",
                    "oracle: HIGH/LOW bracket of the aligned<->terminal-gap transition (DESIGN.md C07), validated natively on 63.5 million pairs up to 5x5 (tools/c07_native.c)"],
}


def configs(tier, prop="C07", equal=False):
    out = []
    if tier == "quick":
        tup = [("dna", 1, 2), ("dna", 2, 3), ("protein", 2, 3), ("divergent", 2, 2), ("dna", 3, 3)]
        if equal:
            tup = [("dna", 2, 2), ("dna", 3, 3), ("protein", 3, 3), ("internal", 3, 3)]
    else:
        tup = [(t, la, lb) for t in split.TYPES for (la, lb) in ((1, 2), (2, 2), (2, 3), (3, 3))] + [("dna", 3, 4), ("protein", 3, 4), ("dna", 4, 4), ("rna", 4, 5)]
        if equal:
            tup = [(t, n, n) for t in split.TYPES for n in (2, 3)] + [("dna", 4, 4), ("protein", 4, 4)]
    for t, la, lb in tup:
        out.append(split.Config(prop, t, la, lb, equal=equal, timeout=900 if tier == "quick" else 3600, mem_gb=8))
    # groups of identical copies: sequence-profile (kernel 2) and profile-profile (kernel 3) with profiles built by the real code
    if tier == "quick":
        out.append(split.Config(prop, "dna", 1, 2, equal=False, kernel=2, ka=2, timeout=900, mem_gb=8) if not equal else split.Config(prop, "dna", 2, 2, equal=True, kernel=2, ka=2, timeout=900, mem_gb=8))
    else:
        for t in ("dna", "protein", "rna"):
            for la, lb in ((1, 2), (2, 2)) if not equal else ((2, 2),):
                out.append(split.Config(prop, t, la, lb, equal=equal, kernel=2, ka=2, timeout=3600, mem_gb=10))
        out.append(split.Config(prop, "dna", 2, 2, equal=equal, kernel=2, ka=3, timeout=3600, mem_gb=10))
        if equal:
            # identical strings need length >= 5 (dna) / >= 3 (protein) before an offset slip in the profile kernel shows (seeded C08_m2)
            out.append(split.Config(prop, "dna", 5, 5, equal=True, kernel=2, ka=2, timeout=5400, mem_gb=12))
            out.append(split.Config(prop, "protein", 3, 3, equal=True, kernel=2, ka=2, timeout=5400, mem_gb=12))
        # NOTE: profile LONGER than the sequence is not claimed: do_align never swaps in the sequence-profile case, and there the
        # unchanged kernels return alignments that the tight bracket oracle rejects (native validation: VK_KCOPIES=2 VK_ANYLEN=1
        # tools/c07_native 4 4 -> 897 of 578000 pairs, e.g. 2x CGAA vs CA comes out as C--A); the deficits stay within 2*gpo.
        # profile-profile: 2x2 ran out of 6 GB in the probe; attempted with 20 GB (may stay undecided)
        out.append(split.Config(prop, "dna", 1, 2 if not equal else 1, equal=equal, kernel=3, ka=2, kb=2, timeout=3600, mem_gb=20))

    if tier != "quick" and not equal:
        # user penalties: only settings for which the oracle (with the property's 2*gpo margin) raises no alarm on the
        # unchanged tree in the native validation (tools/c07_native.c 5 4 <gpo> <gpe> <tgpe>); see DESIGN.md C07
        out.append(split.Config(prop, "dna", 2, 3, pen=(3.5, 1.0, 0.5), timeout=3600))
        out.append(split.Config(prop, "protein", 2, 3, pen=(11.0, 0.0, 2.0), timeout=3600))
        out.append(split.Config(prop, "internal", 3, 3, pen=(2.0, 1.0, 1.0), timeout=3600))
    return out


def run_split(prop, tier, seed, only, cfgs, meta, what):
    import re
    t0 = time.time()
    os.makedirs(core.EVIDENCE, exist_ok=True)
    os.makedirs(core.BUILD, exist_ok=True)
    if only:
        cfgs = [c for c in cfgs if re.search(only, c.name)]
    import shutil
    shutil.rmtree(os.path.join(core.BUILD, prop), ignore_errors=True)
    # configs run concurrently; each explores its decision tree with its own worker pool
    per = max(3, 18 // max(1, min(len(cfgs), 6)))
    with cf.ThreadPoolExecutor(max_workers=6) as ex:
        futs = {ex.submit(split.explore, c, per): c for c in sorted(cfgs, key=lambda c: -(c.la * c.lb))}
        for f in cf.as_completed(futs):
            c = futs[f]
            try:
                f.result()
            except Exception as e:  # pragma: no cover
                c.undecided.append("driver error: %r" % e)
            print("%-10s %-28s leaves=%d outcomes=%d enum_queries=%d final_queries=%d violated=%d undecided=%d solver=%.0fs" % (
                what, c.name, c.stats["leaves"], c.stats["outcomes"], c.stats["enum_queries"], c.stats["final_queries"], len(c.violations), len(c.undecided), c.stats["solver_s"]))
    violations = []
    os.makedirs(os.path.join(core.REPLAYS, prop), exist_ok=True)
    for c in cfgs:
        for k, v in enumerate(c.violations[:3]):
            path = os.path.join(core.REPLAYS, prop, "%s-%d.json" % (c.name, k))
            with open(path, "w") as f:
                json.dump({"property": prop, "config": c.name, "defines": c.defs, "plan_steps": v["plan"], "known_outcomes": v["known"], "violated": v["text"],
                           "mode": "solver", "vin": v.get("vin"),
                           "how": "re-run ./check %s --tier %s --only %s : the driver regenerates this plan and cbmc reports the same failing assertion; "
                                  "the residues are in the cbmc trace under %s" % (prop, tier, c.name, v["dir"])}, f, indent=1)
            violations.append((c, path, v["text"]))
    for c, path, txt in violations:
        print("VIOLATION property=%s replay=%s config=%s :: %s" % (prop, path, c.name, txt[:300]))
    und = [(c.name, u) for c in cfgs for u in c.undecided]
    for n, u in und[:20]:
        print("UNDECIDED property=%s config=%s %s" % (prop, n, u[:300]))
    wall = time.time() - t0
    nq = sum(c.stats["enum_queries"] + c.stats["final_queries"] for c in cfgs)
    ev = {"property_id": prop, "tier": tier, "seed": seed, "level": "model_checking",
          "coverage": {"evaluations": nq, "distinct_nontrivial": sum(c.stats["leaves"] + c.stats["outcomes"] for c in cfgs),
                       "rule": "one case = one solver query over ALL residue values: either an outcome-enumeration query for one Hirschberg step on a concrete rectangle (a model = one more way the "
                               "real aln_continue can split; UNSAT = the enumeration is complete) or a leaf query checking the end-to-end assertions for one complete sequence of split decisions; "
                               "distinct_nontrivial counts enumerated outcomes + leaves",
                       "samples": [dict(config=c.name, **s) for c in cfgs for s in c.samples[:2]][:8] or [{"note": "no leaves"}],
                       "obligations": len(cfgs), "discharged": sum(1 for c in cfgs if not c.violations and not c.undecided),
                       "configs": [{"config": c.name, **c.stats, "violations": len(c.violations), "undecided": c.undecided[:5]} for c in cfgs],
                       "functions_encoded": split.FUNCS, "stubs": meta["stubs"], "outside": meta["outside"],
                       "bounds": ["%s (%s): len_a=%d len_b=%d, 4 letters, all residues symbolic, floats bit-precise" % (c.tname, {1: "sequence-sequence", 2: "profile of %d identical copies vs sequence" % c.ka, 3: "profiles of %d and %d identical copies" % (c.ka, c.kb)}[c.kernel], c.la, c.lb) for c in cfgs],
                       "solver_time_s": round(sum(c.stats["solver_s"] for c in cfgs), 1), "peak_rss_mb": max([c.stats["max_rss_mb"] for c in cfgs] + [0]),
                       "sat_variables_total": sum(c.stats["vars"] for c in cfgs), "program_steps_total": sum(c.stats["steps"] for c in cfgs),
                       "undecided": ["%s: %s" % x for x in und[:20]], "tree_hash": core.tree_hash(), "exhaustive": False,
                       "checker_cmd": "cbmc 6.11.0 (MiniSat) driven by vk/split.py"},
          "assumptions": meta["assumptions"], "wall_s": round(wall, 1), "violations": len(violations)}
    ev_path = os.path.join(core.EVIDENCE, prop + ".json") if not only else os.path.join(core.BUILD, prop + ".partial-evidence.json")
    with open(ev_path, "w") as f:
        json.dump(ev, f, indent=1)
    print("SUMMARY property=%s tier=%s configs=%d queries=%d violated=%d undecided=%d wall=%.0fs" % (prop, tier, len(cfgs), nq, len(violations), len(und), wall))
    return 1 if violations else 0


def kdiff_inst(tname, kernel, la, lb, rect, fp, bp, ka=2, kb=1, nlet=4, timeout=600, mem_gb=4, ob="O2", extra=None, tag=""):
    """one Hirschberg step of the profile kernels == the sequence-sequence step, scaled (harness/c07_kdiff.c)"""
    from vk.core import Inst
    bt, ty = split.TYPES[tname]
    sa, ea, sb, eb = rect
    d = {"VK_BIOTYPE": bt, "VK_TYPE": ty, "VK_LA": la, "VK_LB": lb, "VK_NLET": nlet, "VK_WL_MAX": 8, "NOHAVE_AVX2": None,
         "VK_KERNEL": kernel, "VK_KA": ka, "VK_KB": kb, "VK_SA": sa, "VK_EA": ea, "VK_SB": sb, "VK_EB": eb, "VK_FP": fp, "VK_BP": bp}
    if extra:
        d.update(extra)
    kn = {2: "sp%d" % ka, 3: "pp%d%d" % (ka, kb)}[kernel]
    return Inst(ob=ob, name="kdiff_%s%s_%s_%dx%d_r%d_%d_%d_%d_p%d%d" % (tag, kn, tname, la, lb, sa, ea, sb, eb, fp, bp), harness="c07_kdiff.c", defs=d,
                srcs=split.LIB_SRCS, models=["models/vin.c", "models/msg.c"],
                pre_link=[(["lib/src/aln_controller.c"], ["c07_push.c"], ["--replace-calls", "aln_runner_serial:vstub_push"])],
                unwind=max(200, 64 * (la + 2) + 2), nb=la + lb, timeout=timeout, mem_gb=mem_gb, replay="solver", no_flags=["--pointer-overflow-check"],
                # the kernels' loops over the letters present in a profile column: at most nlet letters (the unwinding assertion proves it)
                unwind_pat=[("aln_profileprofile_foward", r"for \(c = f;c >= 0;c--\)", nlet + 1), ("aln_profileprofile_backward", r"for \(c = f;c >= 0;c--\)", nlet + 1)],
                flags=["--max-field-sensitivity-array-size", "1024"],   # profile arrays ((len+2)*64 floats) and the template table stay element-wise: constant entries fold
                funcs=["aln_runner_serial", "aln_continue", "aln_seqseq_foward", "aln_seqseq_backward", "aln_seqseq_meetup"] +
                      (["aln_seqprofile_foward", "aln_seqprofile_backward", "aln_seqprofile_meetup"] if kernel == 2 else
                       ["aln_profileprofile_foward", "aln_profileprofile_backward", "aln_profileprofile_meetup"]) + ["make_profile_n", "update_n", "set_gap_penalties_n"],
                cost=(ea - sa) * (eb - sb) * (30 if kernel == 3 else 10),
                bound="%s, %s kernels vs sequence-sequence, lengths %dx%d, rectangle rows [%d,%d) columns [%d,%d], boundary patterns %d/%d, %d letters, all residues symbolic" % (
                    tname, {2: "sequence-profile (%d copies)" % ka, 3: "profile-profile (%d x %d copies)" % (ka, kb)}[kernel], la, lb, sa, ea, sb, eb, fp, bp, nlet),
                desc="one Hirschberg step of the profile kernels equals the sequence-sequence step scaled by the group sizes")


def kdiff_instances(tier):
    out = []
    # rectangles: the root and sub-rectangles touching / not touching each end of b (the kernels branch on startb == 0 and
    # endb == len_b) and of a; boundary patterns 1 (a), 2 (ga), 4 (gb) as handed down by aln_continue
    if tier == "quick":
        shapes = [(3, 3, (0, 3, 0, 3), 1, 1), (3, 3, (0, 3, 0, 2), 1, 2), (3, 3, (1, 3, 1, 3), 4, 1), (3, 3, (0, 2, 1, 2), 2, 4), (2, 3, (0, 2, 0, 3), 1, 1), (3, 2, (1, 3, 0, 2), 1, 1),
                  (4, 3, (0, 4, 2, 3), 4, 1)]    # a gap in b running through the meeting row of a last-column rectangle (seeded C07_r5m1)
        types = {2: ["protein", "dna"], 3: ["protein"]}
    else:
        shapes = []
        for la, lb in ((3, 3), (2, 4), (4, 3)):
            for sa in range(la):
                for ea in range(sa + 1, la + 1):
                    for sb in range(lb):
                        for eb in range(sb + 1, lb + 1):
                            k = sa * 7 + ea * 5 + sb * 3 + eb
                            shapes.append((la, lb, (sa, ea, sb, eb), (1, 2, 4)[k % 3], (1, 2, 4)[(k // 3) % 3]))
        types = {2: ["protein", "dna", "divergent"], 3: ["protein", "rna"]}
    for kernel in (2, 3):
        for tname in types[kernel]:
            for la, lb, rect, fp, bp in shapes:
                out.append(kdiff_inst(tname, kernel, la, lb, rect, fp, bp, ka=2, kb=(2 if kernel == 3 else 1), nlet=(3 if kernel == 3 else 4),
                                      timeout=600 if tier == "quick" else 1800))
    if tier != "quick":
        out.append(kdiff_inst("protein", 2, 3, 3, (0, 3, 0, 3), 1, 1, ka=4))
        out.append(kdiff_inst("protein", 3, 3, 3, (0, 3, 0, 3), 1, 1, ka=4, kb=2, nlet=3))
    out.append(kdiff_inst("protein", 2, 2, 2, (0, 2, 0, 2), 1, 1, ka=2, extra={"VK_PROFEQ": None}, tag="profeq_"))
    return out


def combine(prop, tier, seed, only, rc, insts, meta):
    """run ordinary instances after a split exploration and merge the two evidence records"""
    ev_path = os.path.join(core.EVIDENCE, prop + ".json") if not only else os.path.join(core.BUILD, prop + ".partial-evidence.json")
    ev1 = json.load(open(ev_path))
    os.rename(ev_path, ev_path + ".o1")
    build_o1 = os.path.join(core.BUILD, prop)
    os.rename(build_o1, build_o1 + "_o1") if os.path.isdir(build_o1) and not os.path.isdir(build_o1 + "_o1") else None
    rc2 = core.run_property(prop, tier, insts, meta, seed, only)
    ev2 = json.load(open(ev_path))
    ev2["coverage"]["split_exploration"] = ev1["coverage"]
    for k in ("evaluations", "distinct_nontrivial", "obligations", "discharged"):
        ev2["coverage"][k] += ev1["coverage"][k]
    ev2["violations"] += ev1["violations"]
    ev2["wall_s"] += ev1["wall_s"]
    json.dump(ev2, open(ev_path, "w"), indent=1)
    os.remove(ev_path + ".o1")
    import shutil
    shutil.rmtree(build_o1 + "_o1", ignore_errors=True)
    return 1 if (rc == 1 or rc2 == 1) else (rc or rc2)


def run(tier, seed, only):
    rc = run_split("C07", tier, seed, only, configs(tier), META, "C07")
    # the parallel driver (>= 500 rows): same hand-over contract as the serial one whose data path the split decides
    from vk.props import C02
    insts = [dataclasses.replace(C02.runner_inst(kind, rows), ob="O3") for kind in (1, 2, 3) for rows in ((500,) if tier == "quick" else (500, 501, 999))]
    insts += kdiff_instances(tier)
    from vk.props.shared import operand_instances
    insts += operand_instances("O2", "operands")
    return combine("C07", tier, seed, only, rc, insts, META)
