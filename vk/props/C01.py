"""C01 - alignment integrity: every input sequence is reproduced exactly."""
from vk.core import Inst
from vk.props.shared import weave_instances, MK_MSA_UNWIND

META = {
    "stubs": ["error/warning: empty bodies", "msa objects built with small capacities (vk_msa.h)",
              "qsort: insertion sort over the real comparators (models/qsort.c)"],
    "outside": ["composition over the guide tree (DESIGN.md section 5)", "DP paths for lengths beyond C07's bound (here: any valid path)",
                "thread schedules (C02)", "file readers/writers (C04, C06, C15)"],
    "assumptions": ["paths handed to add_gap_info_to_path_n are valid Hirschberg paths (partner indices strictly increasing, -1 = unpaired): asserted on the kernels in C07"],
}

def path_instances(tier):
    out = []
    mx = 4 if tier == "quick" else 7
    for la in range(1, mx + 1):
        for lb in range(1, mx + 1):
            for mode in (1, 2):
                if tier == "quick" and (la + lb) % 2 == (mode % 2) and la + lb > 4:
                    continue
                if mode == 2 and la < lb:
                    continue  # do_align mirrors only when the a side is not shorter
                out.append(Inst(ob="O1", name="path_m%d_la%d_lb%d" % (mode, la, lb), harness="c01_path.c",
                                defs={"VK_MODE": mode, "VK_LA": la, "VK_LB": lb}, srcs=["lib/src/aln_setup.c"],
                                models=["models/vin.c", "models/msg.c", "models/alnmem_stub.c"], native_srcs=["lib/src/tldevel.c", "lib/src/aln_mem.c"],
                                unwind=la + lb + 4, nb=max(la, lb) + 2, ni=1, timeout=600, mem_gb=4,
                                funcs=["add_gap_info_to_path_n"] + (["mirror_path_n"] if mode == 2 else []), cost=la + lb,
                                bound="len_a=%d, len_b=%d, every valid path" % (la, lb),
                                desc="path -> column string for every valid path"))
    return out

def final_instances(tier):
    out = []
    tup = [(2, 3, 2), (3, 4, 3)] if tier == "quick" else [(2, 2, 2), (2, 3, 3), (3, 4, 4), (3, 5, 3), (2, 6, 4), (4, 4, 2)]
    for ns, aln, lmax in tup:
        for mask in range(1, 1 << aln):
            pc = bin(mask).count("1")
            if pc > lmax:
                continue
            out.append(Inst(ob="O4", name="final_ns%d_aln%d_l%d_s%x" % (ns, aln, lmax, mask), harness="c01_final.c",
                            defs={"VK_MODE": 1, "VK_NS": ns, "VK_ALN": aln, "VK_LMAX": lmax, "VK_SHAPE0": mask}, srcs=["lib/src/msa_op.c", "lib/src/alphabet.c"],
                            models=["models/vin.c", "models/msg.c", "models/msa_stub.c", "models/qsort.c"], native_srcs=["lib/src/tldevel.c", "lib/src/msa_alloc.c"],
                            unwind=max(aln, lmax) + 3, unwind_pat=MK_MSA_UNWIND, nb=ns * (2 * lmax + 2), timeout=600, mem_gb=4,
                            funcs=["finalise_alignment", "make_linear_sequence", "kalign_msa_to_arr"], cost=ns * aln,
                            bound="%d rows, %d columns, <=%d residues per row; row 0 shape 0x%x concrete (all shapes enumerated), other rows' lengths and gap vectors and all residue bytes symbolic" % (ns, aln, lmax, mask),
                            desc="gap vectors -> gapped rows -> array API"))
    for ns in ((2, 3, 4) if tier == "quick" else (2, 3, 4, 5)):
        out.append(Inst(ob="O5", name="rank_ns%d" % ns, harness="c01_final.c", defs={"VK_MODE": 2, "VK_NS": ns, "VK_QSORT_MAX": ns},
                        srcs=["lib/src/msa_check.c", "lib/src/msa_sort.c"],
                        models=["models/vin.c", "models/msg.c", "models/qsort.c", "models/ctype.c"], native_srcs=["lib/src/tldevel.c"],
                        unwind=max(ns, 4) + 2, unwind_pat=MK_MSA_UNWIND, nb=3 * ns, ni=ns, timeout=600, mem_gb=4,
                        funcs=["kalign_essential_input_check", "msa_sort_len_name", "msa_sort_rank", "sort_by_len_name", "sort_by_rank"],
                        bound="%d sequences, lengths 0..3, 2-byte names, arbitrary previous ranks" % ns, cost=ns,
                        desc="zero-length removal, canonical sort, restoration of the caller's order"))
    return out

def instances(tier):
    from vk.props.C04 import wrap_instances
    from vk.props.C14 import alpha_instances
    from vk.props.shared import doalign_instances
    from vk.props import C16
    arr = [i for i in C16.instances(tier, arr_ob="O4") if i.name.startswith("arr_twice")]   # array entry point stores residues unchanged
    return (path_instances(tier) + weave_instances(tier, "O2", "weave") + final_instances(tier) + doalign_instances(tier, "O3", "doalign") + arr
            + wrap_instances("O6") + alpha_instances(tier, ob="O7", prefix="alpha"))
