"""instance builders shared between properties"""
from vk.core import Inst

MK_MSA_UNWIND = [("vk_mk_msa", r"i < 128", 129)]


BPM_UNWIND = [("bpm_block", r"b <= y", 2), ("bpm_block", r"while \(score\[y\]", 2), ("bpm_block", r"block < b_max", 2), ("bpm_block", r"int c = 0; c < SIGMA", 14)]


def weave_instances(tier, ob, prefix):
    out = []
    if tier == "quick":
        tuples = [(1, 1, 2, 2, 3, 2), (2, 1, 3, 2, 4, 2), (2, 2, 3, 3, 4, 2), (3, 2, 3, 2, 4, 2), (1, 2, 1, 3, 3, 2), (2, 1, 4, 3, 5, 3)]
    else:
        tuples = []
        for na in (1, 2, 3):
            for nb in (1, 2):
                for pla in (1, 2, 3, 4, 5):
                    for plb in (1, 2, 3, 4):
                        for pl in range(max(pla, plb), pla + plb + 1):
                            if pl <= 6:
                                tuples.append((na, nb, pla, plb, pl, min(4, max(pla, plb))))
    for na, nb, pla, plb, pl, lmax in tuples:
        nbytes = (na + nb) * (lmax + 2) + pl
        out.append(Inst(ob=ob, name="%s_a%d_b%d_pla%d_plb%d_pl%d" % (prefix, na, nb, pla, plb, pl), harness="c01_weave.c",
                        defs={"VK_GA": na, "VK_GB": nb, "VK_PLA": pla, "VK_PLB": plb, "VK_PL": pl, "VK_LMAX": lmax},
                        srcs=["lib/src/weave_alignment.c"], models=["models/vin.c", "models/msg.c"],
                        native_srcs=["lib/src/tldevel.c"], unwind=max(pl, lmax) + 4, unwind_pat=MK_MSA_UNWIND, nb=nbytes, timeout=900, mem_gb=6,
                        funcs=["make_seq", "update_gaps"], cost=pl * (na + nb),
                        bound="groups of %d+%d members, row lengths %d/%d merged into %d columns, <=%d residues per member; gap vectors and column string symbolic"
                              % (na, nb, pla, plb, pl, lmax),
                        desc="inductive merge step from an arbitrary valid state"))
    return out
