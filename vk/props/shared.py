"""instance builders shared between properties"""
from vk.core import Inst

MK_MSA_UNWIND = [("vk_mk_msa", r"i < 128", 129)]


BPM_UNWIND = [("bpm_block", r"b <= y", 2), ("bpm_block", r"while \(score\[y\]", 2), ("bpm_block", r"block < b_max", 2), ("bpm_block", r"int c = 0; c < SIGMA", 14)]


def weave_instances(tier, ob, prefix):
    out = []
    if tier == "quick":
        tuples = [(1, 1, 2, 2, 3, 2), (2, 1, 3, 2, 4, 2), (2, 2, 3, 3, 4, 2), (3, 2, 3, 2, 4, 2), (1, 2, 1, 3, 3, 2), (2, 1, 4, 3, 5, 3)]
    else:
        tuples = []
        for na in (1, 2, 3):
            for nb in (1, 2):
                for pla, plb in ((2, 2), (3, 2), (2, 3), (3, 3), (4, 2), (4, 3), (5, 2)):
                    for pl in range(max(pla, plb), pla + plb + 1):
                        if pl <= 6:
                            tuples.append((na, nb, pla, plb, pl, min(5, max(pla, plb))))   # a single-member node is a bare sequence: lmax must reach its row length
    for na, nb, pla, plb, pl, lmax in tuples:
        nbytes = (na + nb) * (lmax + 2) + pl
        out.append(Inst(ob=ob, name="%s_a%d_b%d_pla%d_plb%d_pl%d" % (prefix, na, nb, pla, plb, pl), harness="c01_weave.c",
                        defs={"VK_GA": na, "VK_GB": nb, "VK_PLA": pla, "VK_PLB": plb, "VK_PL": pl, "VK_LMAX": lmax},
                        srcs=["lib/src/weave_alignment.c"], models=["models/vin.c", "models/msg.c"],
                        native_srcs=["lib/src/tldevel.c"], unwind=max(pl, lmax) + 4, unwind_pat=MK_MSA_UNWIND, nb=nbytes, timeout=900, mem_gb=6,
                        funcs=["make_seq", "update_gaps"], cost=pl * (na + nb),
                        bound="groups of %d+%d members, row lengths %d/%d merged into %d columns, <=%d residues per member; gap vectors and column string symbolic"
                              % (na, nb, pla, plb, pl, lmax),
                        desc="inductive merge step from an arbitrary valid state"))
    return out


def operand_instances(ob, prefix):
    """do_align up to the DP call: which operands (sequence / profile, order, group size, scaled gap entries) the DP is handed"""
    out = []
    for ga, gb, la, lb in [(1, 1, 2, 3), (1, 1, 3, 2), (2, 1, 3, 2), (2, 1, 2, 3), (1, 2, 3, 2), (1, 2, 2, 3), (2, 2, 2, 3), (2, 2, 3, 2), (3, 2, 2, 2), (1, 3, 2, 2)]:
        if ga == 1 and gb > 1:
            pla, plb = lb, la
        elif ga > 1 and gb == 1:
            pla, plb = la, lb
        else:
            pla, plb = (la, lb) if la < lb else (lb, la)
        d = {"VK_GA": ga, "VK_GB": gb, "VK_LENA": la, "VK_LENB": lb, "NOHAVE_AVX2": None, "VK_PLA": pla, "VK_PLB": plb, "VK_PATH_INIT": "{0,1,2,3,4}", "VK_OPERANDS_ONLY": None, "VK_LAST": None}
        out.append(Inst(ob=ob, name="%s_a%d_b%d_la%d_lb%d" % (prefix, ga, gb, la, lb), harness="c01_doalign.c", defs=d,
                        srcs=["lib/src/aln_setup.c", "lib/src/weave_alignment.c", "lib/src/aln_mem.c", "lib/src/task.c"],
                        models=["models/vin.c", "models/msg.c", "models/qsort.c"], native_srcs=["lib/src/tldevel.c"],
                        unwind=66, unwind_pat=MK_MSA_UNWIND + [("make_profile_n", r"while\(i--\)", max(la, lb) + 2), ("set_gap_penalties_n", r"while\(i--\)", max(la, lb) + 3),
                                                               ("init_alnmem", r"i  < g", la + lb + 4), ("aln_runner", r"i <= 4", 6)],
                        nb=64, ni=1, nf=3, timeout=300, mem_gb=4, funcs=["do_align", "make_profile_n", "set_gap_penalties_n", "init_alnmem"], cost=20,
                        bound="node a: %d member(s) / length %d, node b: %d member(s) / length %d; residues, gap vectors, stored group profiles and penalties symbolic" % (ga, la, gb, lb),
                        desc="operands handed to the DP by do_align"))
    return out


def valid_paths(la, lb):
    """all Hirschberg paths (partner of a_i or -1) satisfying the contract of harness/vk_path.h"""
    import itertools
    out = []
    for p in itertools.product([-1] + list(range(1, lb + 1)), repeat=la):
        ok, prev, npaired, pend = True, 0, 0, False
        for v in p:
            if v == -1:
                pend = True
            else:
                if v <= prev or (pend and v != prev + 1):
                    ok = False
                pend, prev, npaired = False, v, npaired + 1
        if pend and prev != lb:
            ok = False
        if ok and npaired:
            out.append(list(p))
    return out


def doalign_instances(tier, ob, prefix):
    out = []
    tup = [(1, 1, 2, 3, 1), (2, 1, 3, 2, 1)] if tier == "quick" else \
          [(ga, gb, la, lb, last) for ga in (1, 2) for gb in (1, 2) for (la, lb) in ((2, 3), (3, 2), (2, 2)) for last in (0, 1)]
    for ga, gb, la, lb, last in tup:
      if tier != "quick" and (ga, gb, la, lb) in ((1, 2, 3, 2), (2, 1, 2, 3)):
          continue   # single sequence longer than the group's rows: no verdict within 3000 s per path in two complete thorough runs (dropped)
      # problem size the DP is handed (do_align swaps so that the first operand is the shorter one / the profile)
      if ga == 1 and gb > 1:
          pla, plb = lb, la
      elif ga > 1 and gb == 1:
          pla, plb = la, lb
      else:
          pla, plb = (la, lb) if la < lb else (lb, la)
      paths = valid_paths(pla, plb)
      if tier != "quick":
          # mixed shapes (a group merged with a single sequence) needed > 1200 s per path in the first complete thorough run:
          # two paths each with a longer cap; same-kind shapes keep four
          paths = paths[::max(1, len(paths) // 4)][:(4 if (ga > 1) == (gb > 1) else 2)]
      if tier == "quick":
          paths = paths[:1]   # quick: one path per size tuple, last-task variant (no update_n): the 900 s budget of the quick tier
      for pi, path in enumerate(paths):
        d = {"VK_GA": ga, "VK_GB": gb, "VK_LENA": la, "VK_LENB": lb, "NOHAVE_AVX2": None, "VK_PLA": pla, "VK_PLB": plb,
             "VK_PATH_INIT": "{0," + ",".join(map(str, path)) + "}"}
        if last:
            d["VK_LAST"] = None
        out.append(Inst(ob=ob, name="%s_a%d_b%d_la%d_lb%d_%s_p%d" % (prefix, ga, gb, la, lb, "last" if last else "mid", pi), harness="c01_doalign.c", defs=d,
                        srcs=["lib/src/aln_setup.c", "lib/src/weave_alignment.c", "lib/src/aln_mem.c", "lib/src/task.c"],
                        models=["models/vin.c", "models/msg.c", "models/qsort.c"], native_srcs=["lib/src/tldevel.c"],
                        unwind=66, unwind_pat=MK_MSA_UNWIND + [("update_n", r"while\(path\[c\] != 3\)", la + lb + 2), ("make_seq", r"while\(path\[c\] != 3\)", la + lb + 2),
                                                               ("add_gap_info_to_path_n", r"while\(o_path\[", la + lb + 3), ("add_gap_info_to_path_n", r"for\(i = 2; i <= len_a", max(la, lb) + 2),
                                                               ("add_gap_info_to_path_n", r"for \( a = 0", max(la, lb) + 2), ("update_gaps", r"for \(", la + lb + 3),
                                                               ("make_profile_n", r"while\(i--\)", max(la, lb) + 2), ("set_gap_penalties_n", r"while\(i--\)", max(la, lb) + 3),
                                                               ("init_alnmem", r"i  < g", la + lb + 4), ("mirror_path_n", r"for\(", la + lb + 4), ("aln_runner", r"i <= 4", 6)],
                        nb=40, ni=1, nf=3, timeout=(1200 if (ga > 1) == (gb > 1) else 3000), mem_gb=4,
                        funcs=["do_align", "make_profile_n", "set_gap_penalties_n", "update_n", "add_gap_info_to_path_n", "mirror_path_n", "make_seq", "update_gaps", "init_alnmem"],
                        cost=(la + lb) * (ga + gb) * 10,
                        bound="node a: %d member(s) / length %d, node b: %d member(s) / length %d, %s task; DP answer = one enumerated valid path; gap vectors, residues and stale output-node state symbolic" % (ga, la, gb, lb, "last" if last else "inner"),
                        desc="one merge through the real do_align with the DP stubbed"))
    return out
