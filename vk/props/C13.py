"""C13 - nucleotide and protein inputs are recognised from their residue letters.

Deciding step: z3 (QF_LRA; cvc5 as second opinion) on the linear decision function of detect_alphabet.
  decision = sign( sum_i w_i * f_i ),  w_i = mask_i * (DNA[i] - protein[i])
* DNA[], protein[] are exported by the real function through the guarded hook (-DKALIGN_VERIF) on every run;
* mask_i (does character i take part at all) is obtained from the real function on the unit histograms e_i;
* IEEE evaluation is bracketed by the standard model: |computed - exact| <= 130 * 2^-53 * sum_i |t_i| f_i per sum;
* the structure (sum of products, three-way compare) is validated on every run against the real function on
  random / boundary histograms (translator validation); a disagreement that itself contradicts C13 is reported
  as a violation with the histogram as replay.
A CBMC instance shows that detect_alphabet reads nothing but the histogram (order/naming independence).
"""
import json
import os
import random
import subprocess
import sys
import time
from fractions import Fraction

from vk import core
from vk.core import Inst, REPO, BUILD, HARNESS, EVIDENCE, REPLAYS

NUC = "acgtunACGTUN"
PROT_ONLY = "defhiklmpqrsvwyDEFHIKLMPQRSVWY"
LETTERS = [i for i in range(128) if chr(i).isalpha()]
EPS = Fraction(130, 2 ** 53)

META = {
    "stubs": ["log(): libm result as computed by the native extractor (tables are read from the running code, not re-derived)"],
    "outside": ["nonlinear effects of double overflow (counts < 2^31, |table| < 14: no overflow)",
                "inputs satisfying neither premise (e.g. IUPAC-rich nucleotide input)"],
    "assumptions": ["detect_alphabet computes two sums of table[i]*count[i] in index order and compares them (validated against the real function on every run)",
                    "rounding: standard model fl(x op y) = (x op y)(1+d), |d| <= 2^-53, accumulated bound 130*2^-53*sum|terms|"],
}


def build_extractor():
    d = os.path.join(BUILD, "C13")
    os.makedirs(d, exist_ok=True)
    exe = os.path.join(d, "extract")
    cmd = ["gcc", "-w", "-O0", "-DKALIGN_VERIF", "-I" + os.path.join(REPO, "lib/src"), "-I" + os.path.join(REPO, "lib/include"),
           "-I" + os.path.join(HARNESS, "gen"), "-o", exe, os.path.join(HARNESS, "c13/extract.c")] + \
          [os.path.join(REPO, "lib/src", f) for f in ("msa_op.c", "alphabet.c", "msa_alloc.c", "tldevel.c")] + ["-lm"]
    r = core.sh(cmd)
    if r.returncode != 0:
        raise RuntimeError("extractor build failed:\n" + r.stdout[-2000:])
    return exe


def real_decide(exe, hists):
    d = os.path.join(BUILD, "C13")
    fn = os.path.join(d, "hists.txt")
    with open(fn, "w") as f:
        for h in hists:
            f.write(" ".join(str(x) for x in h) + "\n")
    r = subprocess.run([exe, "validate", fn], stdout=subprocess.PIPE, stderr=subprocess.DEVNULL, text=True)
    return [int(x) for x in r.stdout.split("\n") if x.strip() in ("0", "1", "2", "-1")]


def model_decide(D, P, mask, h):
    dna = 0.0
    prot = 0.0
    for i in range(128):
        if h[i] and mask[i]:
            dna += D[i] * float(h[i])
            prot += P[i] * float(h[i])
    if dna == prot:
        return 2
    return 1 if dna > prot else 0


def smt_query(name, constraints, want, W, A, exclude=()):
    """want: +1 = property says DNA (violation: not robustly DNA), -1 = property says protein.
    Returns (status, model|None, smt_text)."""
    lines = ["(set-logic QF_LRA)"]
    for i in range(128):
        lines.append("(declare-fun f%d () Real)" % i)
        lines.append("(assert (>= f%d 0))" % i)

    def lin(coefs):
        terms = ["(* %s f%d)" % (rat(c), i) for i, c in enumerate(coefs) if c != 0]
        return "(+ 0 %s)" % " ".join(terms) if terms else "0"

    def rat(c):
        c = Fraction(c)
        s = "(/ %d %d)" % (abs(c.numerator), c.denominator)
        return "(- %s)" % s if c < 0 else s

    lines += constraints(lin)
    for i in exclude:
        lines.append("(assert (= f%d 0))" % i)
    diff = lin(W)            # exact dna - prot
    band = lin([EPS * a for a in A])
    if want > 0:
        # violation: the computed comparison can fail to say DNA: exact diff <= band
        lines.append("(assert (<= %s %s))" % (diff, band))
    else:
        lines.append("(assert (>= %s (- %s)))" % (diff, band))
    lines.append("(check-sat)")
    lines.append("(get-model)")
    txt = "\n".join(lines) + "\n"
    d = os.path.join(BUILD, "C13")
    fn = os.path.join(d, name + ".smt2")
    with open(fn, "w") as f:
        f.write(txt)
    out = {}
    for solver, cmd in (("z3", ["z3", fn]), ("cvc5", ["cvc5", "--produce-models", fn])):
        t0 = time.time()
        try:
            r = subprocess.run(["timeout", "120"] + cmd, stdout=subprocess.PIPE, stderr=subprocess.STDOUT, text=True)
            o = r.stdout
        except Exception as e:  # pragma: no cover
            o = "(error %r)" % e
        first = o.strip().split("\n")[0] if o.strip() else "(error empty)"
        if "(error" in o and first not in ("unsat",):
            # get-model after unsat prints an error line: only the first line counts then
            if first not in ("sat", "unsat"):
                first = "error"
        out[solver] = (first, o, time.time() - t0)
    return out, fn


def parse_model(o):
    import re
    vals = {}
    for m in re.finditer(r"\(define-fun f(\d+) \(\) Real\s+([^\n]+?)\)\s*(?=\(define-fun|\)\s*$|$)", o, re.S):
        pass
    # robust: evaluate s-expressions of the form (/ a b), (- x), a.0
    toks = re.findall(r"\(define-fun f(\d+) \(\) Real\s*(.*?)\)\n", o, re.S)
    for idx, expr in toks:
        e = expr.strip()
        nums = re.findall(r"[\d.]+", e)
        if not nums:
            continue
        if "/" in e and len(nums) >= 2:
            v = Fraction(nums[0]) / Fraction(nums[1])
        else:
            v = Fraction(nums[0])
        if e.startswith("(-") or e.startswith("(- "):
            v = -v
        vals[int(idx)] = v
    return vals


def to_int_hist(vals):
    den = 1
    for v in vals.values():
        den = den * v.denominator // __import__("math").gcd(den, v.denominator)
    h = [0] * 128
    for i, v in vals.items():
        h[i] = int(v * den)
    mx = max(h) if h else 0
    if mx == 0:
        return None
    if mx >= 2 ** 30:
        sc = Fraction(2 ** 30 - 1, mx)
        h = [int(x * sc) for x in h]
    return h


def run(tier, seed, only):
    t0 = time.time()
    os.makedirs(EVIDENCE, exist_ok=True)
    os.makedirs(os.path.join(REPLAYS, "C13"), exist_ok=True)
    prop = "C13"
    violations, kf_lines, undecided, samples = [], [], [], []
    queries = 0
    solver_s = 0.0
    exe = build_extractor()
    r = subprocess.run([exe, "extract"], stdout=subprocess.PIPE, stderr=subprocess.DEVNULL, text=True)
    if r.returncode != 0:
        print("ERROR property=C13 extractor did not reach the hook (is the KALIGN_VERIF hook in detect_alphabet?)")
        return 2
    D, P = [0.0] * 128, [0.0] * 128
    import re as _re
    for ln in r.stdout.strip().split("\n"):
        if not _re.match(r"^\d+ -?0x\S+ -?0x\S+$", ln.strip()):
            continue   # message lines of the library
        i, a, b = ln.split()
        D[int(i)], P[int(i)] = float.fromhex(a), float.fromhex(b)
    # participation mask from the real function on unit histograms
    units = []
    for i in range(128):
        h = [0] * 128
        h[i] = 1
        units.append(h)
    ud = real_decide(exe, units)
    mask = [0 if x == 2 else 1 for x in ud]
    W = [Fraction(D[i]) - Fraction(P[i]) if mask[i] else Fraction(0) for i in range(128)]
    A = [abs(Fraction(D[i])) + abs(Fraction(P[i])) if mask[i] else Fraction(0) for i in range(128)]

    # ---- translator validation: model vs real function
    rng = random.Random(1234 + seed)
    hists = []
    n_val = 3000 if tier == "quick" else 20000
    for k in range(n_val):
        h = [0] * 128
        mode = k % 6
        pool = {0: list(range(32, 127)), 1: [ord(c) for c in NUC], 2: [ord(c) for c in NUC + PROT_ONLY], 3: LETTERS,
                4: [ord(c) for c in "ACGTU-. *"], 5: [ord(c) for c in "DEU-u.0123XBZJO"]}[mode]
        for _ in range(rng.randint(1, 12)):
            h[rng.choice(pool)] = rng.choice([1, 2, 3, 7, 100, 12345, rng.randint(1, 10 ** 6), 2 ** 31 - 1 if rng.random() < 0.02 else 5])
        hists.append(h)
    real = real_decide(exe, hists)
    mism = [(h, a, model_decide(D, P, mask, h)) for h, a in zip(hists, real) if a != model_decide(D, P, mask, h)]
    validation = {"histograms": len(hists), "disagreements": len(mism)}

    def premise1(h):
        nuc = sum(h[ord(c)] for c in NUC)
        other_letters = sum(h[i] for i in LETTERS) - nuc
        return nuc >= 1 and other_letters == 0

    def premise2(h):
        letters = sum(h[i] for i in LETTERS)
        po = sum(h[ord(c)] for c in PROT_ONLY)
        return letters >= 1 and 4 * po >= letters

    def report_concrete(h, got, what, kf_ok=True):
        """h violates C13 on the real function."""
        kfs = core.open_findings(prop)
        for k in kfs:
            if k.get("predicate") == "U" and (h[ord("U")] + h[ord("u")] > 0) and what == "O2":
                ln = "KNOWN-FINDING: property=C13 %s [%s]" % (k["what"], k["id"])
                if ln not in kf_lines:
                    kf_lines.append(ln)
                return
        if sum(1 for v in violations if v[0] == what) >= 2:
            return   # two concrete witnesses per obligation are enough
        path = os.path.join(REPLAYS, "C13", "%s-%d.json" % (what, len(violations)))
        with open(path, "w") as f:
            json.dump({"property": "C13", "obligation": what, "histogram": {chr(i): h[i] for i in range(128) if h[i]},
                       "real_decision": {0: "protein", 1: "dna", 2: "undetermined", -1: "error"}[got],
                       "how": "build harness/c13/extract.c with -DKALIGN_VERIF against /repo and run `extract validate` on the histogram",
                       "raw": h}, f, indent=1)
        violations.append((what, path, {chr(i): h[i] for i in range(128) if h[i]}))

    # validation histograms that contradict the property on the real code are concrete violations
    for h, a in zip(hists, real):
        if premise1(h) and a != 1:
            report_concrete(h, a, "O1")
        elif premise2(h) and not premise1(h) and a != 0:
            report_concrete(h, a, "O2")

    encoding_ok = not mism
    # ---- SMT queries
    def c_o1(lin):
        cs = []
        for i in LETTERS:
            if chr(i) not in NUC:
                cs.append("(assert (= f%d 0))" % i)
        cs.append("(assert (>= %s 1))" % lin([1 if chr(i) in NUC else 0 for i in range(128)]))
        return cs

    def c_o2(lin):
        letters = [1 if i in LETTERS else 0 for i in range(128)]
        po = [4 if chr(i) in PROT_ONLY else 0 for i in range(128)]
        return ["(assert (>= %s 1))" % lin(letters), "(assert (>= %s %s))" % (lin(po), lin(letters))]

    results = []
    kfs = core.open_findings(prop)
    excl_u = [ord("U"), ord("u")] if any(k.get("predicate") == "U" for k in kfs) else []
    plan = [("O1_all_nucleotide_is_dna", c_o1, +1, ()), ("O2_quarter_protein_only_is_protein", c_o2, -1, tuple(excl_u))]
    if excl_u:
        plan.append(("O2_known_finding_confirm", c_o2, -1, ()))
    for name, cons, want, excl in plan:
        out, fn = smt_query(name, cons, want, W, A, excl)
        queries += 2
        z, c = out["z3"], out["cvc5"]
        solver_s += z[2] + c[2]
        verdicts = (z[0], c[0])
        rec = {"query": name, "z3": z[0], "cvc5": c[0], "seconds": round(z[2] + c[2], 2), "file": fn, "excluded": [chr(i) for i in excl]}
        samples.append(rec)
        confirm = name.endswith("confirm")
        if verdicts == ("unsat", "unsat"):
            rec["verdict"] = "holds for every histogram (any counts)" if not confirm else "known finding no longer present"
        elif "sat" in verdicts and "error" not in verdicts and verdicts[0] == verdicts[1]:
            vals = parse_model(z[1])
            h = to_int_hist(vals) if vals else None
            rec["model"] = {chr(i): str(v) for i, v in vals.items() if v != 0}
            if h is not None:
                got = real_decide(exe, [h])[0]
                bad = (got != 1) if want > 0 else (got != 0)
                rec["replayed_on_real_function"] = {"histogram": {chr(i): h[i] for i in range(128) if h[i]}, "decision": got, "violates": bad}
                if bad:
                    report_concrete(h, got, name.split("_")[0])
                    rec["verdict"] = "counterexample reproduced on the real function"
                else:
                    rec["verdict"] = "inside the rounding band only (solver model does not flip the real function)"
                    # the band is an over-approximation: try to confirm by scaling; otherwise undecided
                    undecided.append(name + ": solver model lies inside the rounding band and does not reproduce")
            else:
                undecided.append(name + ": could not turn the solver model into a histogram")
        else:
            undecided.append("%s: solvers answered %r" % (name, verdicts))
            rec["verdict"] = "inconclusive"
        results.append(rec)

    # ---- CBMC: detect_alphabet reads nothing but the histogram
    inst = Inst(ob="O3", name="struct_hist_only", harness="c13_struct.c", srcs=["lib/src/msa_op.c", "lib/src/alphabet.c"],
                models=["models/vin.c", "models/msg.c", "models/msa_stub.c", "models/ctype.c", "models/log_stub.c"],
                native_srcs=["lib/src/tldevel.c", "lib/src/msa_alloc.c"], unwind=130, ni=130, timeout=150, mem_gb=6,
                flags=["--slice-formula"], funcs=["detect_alphabet"],
                bound="any histogram with counts 0..10^6, msa->sequences/sip/nsip/plen invalid pointers, numseq arbitrary",
                desc="the decision reads only letter_freq (any order / naming of the sequences gives the same kind)")
    res = core.run_instance(prop, inst)
    queries += res.queries
    print("%-12s %-44s %-13s %6.1fs %5dMB steps=%d vars=%d %s" % ("O3", inst.name, res.verdict, res.wall_s, res.rss_mb, res.steps, res.vars, res.reason[:200]))
    if res.verdict == "violated":
        path = core.save_replay(prop, inst, getattr(res, "vin", {}), res, None)
        violations.append(("O3", path, res.reason))
    elif res.verdict != "holds":
        undecided.append("O3 struct_hist_only: " + res.reason[:200])

    if mism and not violations:
        undecided.append("encoder validation: %d of %d histograms disagree between the linear model and the real function, e.g. %r"
                         % (len(mism), len(hists), {chr(i): mism[0][0][i] for i in range(128) if mism[0][0][i]}))

    for rec in results:
        print("%-12s %-44s z3=%s cvc5=%s %s" % (rec["query"].split("_")[0], rec["query"], rec["z3"], rec["cvc5"], rec.get("verdict", "")))
    print("validation: %d histograms, %d disagreements between the encoder's model and the real detect_alphabet" % (len(hists), len(mism)))
    for ln in kf_lines:
        print(ln)
    for what, path, info in violations:
        print("VIOLATION property=C13 replay=%s obligation=%s %s" % (path, what, str(info)[:300]))
    for u in undecided:
        print("UNDECIDED property=C13 %s" % u)
    wall = time.time() - t0
    ev = {"property_id": prop, "tier": tier, "seed": seed, "level": "model_checking",
          "coverage": {"evaluations": queries + len(hists) + 128,
                       "distinct_nontrivial": len(results) + 1,
                       "rule": "one case = one solver query over ALL histograms (128 real-valued non-negative counts, any size) for one obligation, "
                               "plus the CBMC instance for histogram-only dependence; the %d validation histograms are translator validation, not the verdict" % len(hists),
                       "samples": samples + [res.to_json()],
                       "obligations": 3, "discharged": 3 - len(set(u.split(":")[0].split("_")[0] for u in undecided)) if not violations else 0,
                       "functions_encoded": ["detect_alphabet (linear model from exported tables + participation mask)", "detect_alphabet (CBMC, structural)"],
                       "tables_nonzero_mask": "".join(chr(i) for i in range(33, 127) if mask[i]),
                       "translator_validation": validation, "known_findings_confirmed": kf_lines,
                       "solver_time_s": round(solver_s + res.solver_s, 2), "undecided": undecided, "stubs": META["stubs"], "outside": META["outside"],
                       "bounds": ["counts: any non-negative reals (superset of all int histograms); rounding band 130*2^-53*sum|t_i|f_i"],
                       "tree_hash": core.tree_hash(), "exhaustive": False,
                       "checker_cmd": "z3 4.8.12 + cvc5 1.0 (QF_LRA) on build/C13/*.smt2; cbmc 6.11 for O3"},
          "assumptions": META["assumptions"], "wall_s": round(wall, 1), "violations": len(violations)}
    with open(os.path.join(EVIDENCE, prop + ".json") if not only else os.path.join(BUILD, prop + ".partial-evidence.json"), "w") as f:
        json.dump(ev, f, indent=1)
    print("SUMMARY property=C13 tier=%s queries=%d violated=%d undecided=%d wall=%.0fs" % (tier, queries, len(violations), len(undecided), wall))
    return 1 if violations else 0
