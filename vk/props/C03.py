"""C03 - the alignment does not depend on the order of the input sequences."""
from vk.core import Inst

META = {
    "stubs": ["qsort: insertion sort over the real comparators", "error/warning: empty bodies"],
    "outside": ["names that differ only after byte 255 (strncmp bound MSA_NAME_LEN)", ">= 100 sequences (k-means path: only stub-level determinism, C02)",
                "the DP itself: its inputs are the canonical-order sequences, so C07 harnesses do not see input order at all"],
    "assumptions": ["sequence names pairwise distinct (premise of the property)", "distance entries finite, 0..20000"],
}

def upgma_inst(mode, ns, ob, prefix, y=None, **kw):
    d = {"VK_MODE": mode, "VK_NS": ns, "NOHAVE_AVX2": None}
    if y is not None:
        d["VK_Y"] = y
    return Inst(ob=ob, name="%s_m%d_n%d%s" % (prefix, mode, ns, "_y%d" % y if y is not None else ""), harness="c03_upgma.c", defs=d,
                models=["models/vin.c", "models/msg.c"], native_srcs=["lib/src/tldevel.c", "lib/src/task.c", "lib/src/sequence_distance.c", "lib/src/bpm.c",
                                                                    "lib/src/euclidean_dist.c", "lib/src/pick_anchor.c", "lib/src/esl_stopwatch.c", "lib/src/tlrng.c"],
                unwind=2 * ns + 3, nf=max(1, ns * (ns - 1) // 2), timeout=kw.pop("timeout", 900), mem_gb=8, solver=kw.pop("solver", "minisat"),
                funcs=["upgma", "alloc_node"], cost=ns ** 3,
                bound="%d leaves, every finite distance matrix with entries in [0,20000], floats bit-precise" % ns,
                desc={1: "UPGMA deterministic, closest pair first", 2: "copies at distance < 1 become siblings", 3: "all-equal matrix gives a full binary tree"}[mode], **kw)

def instances(tier):
    out = []
    for ns in ((2, 3) if tier == "quick" else (2, 3, 4)):   # 5 records: no verdict in 900 s
        out.append(Inst(ob="O1", name="sort_n%d" % ns, harness="c03_sort.c", defs={"VK_NS": ns, "VK_QSORT_MAX": ns},
                        models=["models/vin.c", "models/msg.c", "models/qsort.c", "models/str.c"], native_srcs=["lib/src/tldevel.c", "lib/src/tlrng.c"],
                        unwind=max(ns + 2, 18), nb=3 * ns, ni=ns, timeout=900, mem_gb=6,
                        funcs=["sort_by_len_name", "sort_by_rank", "msa_sort_len_name", "msa_sort_rank"], cost=ns ** 2,
                        bound="%d records, any int lengths, any distinct 2-byte names, any permutation" % ns,
                        desc="canonical sort is permutation invariant; comparator laws"))
    for ns in ((3,) if tier == "quick" else (3, 4)):      # 4 leaves (two runs compared): no verdict in 900 s, attempted with 2400 s; 5 leaves dropped
        out.append(upgma_inst(1, ns, "O3", "upgma", timeout=2400 if ns == 4 else 900))
    from vk.props.C12 import dist_instances
    out += dist_instances(tier, ob="O2")     # distances do not read the caller's rank
    return out
