"""C16 - a library call's result does not depend on the calls made before it."""
import dataclasses
from vk.core import Inst

META = {
    "stubs": ["error/warning: empty bodies", "log(): arbitrary finite value (values irrelevant for allocation / dependence checks)"],
    "outside": ["arbitrary long call histories as such (reduced to: each call is a function of its arguments and the objects it owns; no writable static state; paired allocation)",
                "the OpenMP runtime's thread pool (excluded by the property)", "kalign_read_input's file handles"],
    "assumptions": ["CBMC: fresh heap and (with --nondet-static) static storage are nondeterministic"],
}

LIFE_UNW = [("snprintf", r"for \(int i = 0; i < VK_SNPRINTF_MAX", 26), ("snprintf", r"for \(int k = 0; k < VK_SNPRINTF_MAX", 26), ("snprintf", r"do \{", 12), ("snprintf", r"k = n - 1", 12), ("alloc_msa_seq", r"alloc_len\+1", 515), ("resize_msa_seq", r"alloc_len\+1", 515), ("alloc_msa", r"i < 128", 129), ("kalign_arr_to_msa", r"i < 128", 129),
            ("detect_alphabet", r"i < 128;", 129), ("detect_alphabet", r"i < 12;", 14), ("detect_alphabet", r"i < 40;", 42), ("aln_param_init", r"= 23", 25),
            ("set_subm_gaps_CorBLOSUM66_13plus", r"< 23", 25), ("set_subm_gaps_gon250", r"< 23", 25), ("aln_param_free", r"i = 23", 25), ("main", r"c < 128", 129)]

def instances(tier, arr_ob="O2"):
    out = []
    common = dict(models=["models/vin.c", "models/msg.c", "models/ctype.c", "models/log_stub.c", "models/snprintf_model.c", "models/qsort.c", "models/str.c"], native_srcs=["lib/src/tldevel.c"], timeout=240, mem_gb=8)
    srcs = ["lib/src/msa_alloc.c", "lib/src/msa_op.c", "lib/src/alphabet.c", "lib/src/task.c", "lib/src/aln_mem.c", "lib/src/aln_param.c", "lib/src/msa_check.c"]
    for mode, n, l in ([(1, 2, 0), (2, 3, 0), (3, 0, 0), (4, 2, 2), (5, 3, 0)] if tier == "quick" else [(1, 1, 0), (1, 2, 0), (1, 3, 0), (2, 2, 0), (2, 3, 0), (2, 5, 0), (3, 0, 0), (4, 2, 2), (4, 3, 2), (4, 2, 3), (5, 3, 0), (5, 4, 0)]):
        out.append(Inst(ob="O3", name="life_m%d_n%d_l%d" % (mode, n, l), harness="c16_life.c", defs={"VK_MODE": mode, "VK_N": n, "VK_L": l, "VK_QSORT_MAX": 4},
                        srcs=srcs + ["lib/src/msa_sort.c" if False else "lib/src/tlrng.c"][:0], unwind=max(2 * n + 4, 18), unwind_pat=LIFE_UNW, flags=["--memory-leak-check"],
                        nb=max(4, n * max(l, 1)), nf=1, funcs={1: ["alloc_msa", "alloc_msa_seq", "resize_msa_seq", "set_sip_nsip", "kalign_free_msa", "free_msa_seq"],
                                                       2: ["alloc_tasks", "free_tasks", "alloc_aln_mem", "resize_aln_mem", "free_aln_mem"], 3: ["aln_param_init", "aln_param_free"],
                                                       4: ["kalign_arr_to_msa", "detect_alphabet", "detect_aligned", "set_sip_nsip", "kalign_free_msa"],
                                                       5: ["alloc_msa", "kalign_essential_input_check", "kalign_free_msa"]}[mode],
                        gi_args=(["--replace-calls", "detect_alphabet:vk_detect_alphabet"] if mode == 4 else []),
                        bound="life cycle %d with %d objects" % (mode, n), desc="paired allocation: no leak, no double free, no use after free", cost=10 * n, leak_check=True, **common))
    for n, l in ([(2, 2)] if tier == "quick" else [(2, 1), (2, 2), (3, 2), (2, 3)]):
        out.append(Inst(ob=arr_ob, name="arr_twice_n%d_l%d" % (n, l), harness="c16_arr.c", defs={"VK_N": n, "VK_L": l}, srcs=srcs, unwind=max(2 * n + 4, 12), unwind_pat=LIFE_UNW,
                        nb=n * l, ni=1, gi_args=["--replace-calls", "detect_alphabet:vk_detect_alphabet"], funcs=["kalign_arr_to_msa", "detect_aligned", "set_sip_nsip"],
                        bound="%d sequences of %d arbitrary 7-bit bytes, two independent runs" % (n, l), desc="array entry point is a function of its arguments (self-composition over nondet heap)", cost=20 * n, **common))
    # merging the records of a second input into an existing object, then releasing both: nothing remains (C04's instances)
    from vk.props import C04
    out += [dataclasses.replace(i, ob="O3") for i in C04.instances(tier) if i.name.startswith(("merge_", "kalign_run_orch"))]
    # the k-means driver's keep-the-best loop (>= 100 sequences) with the numeric parts replaced by arbitrary scores
    for n, rounds in (((100, 0), (100, 2)) if tier == "quick" else ((100, 0), (101, 0), (160, 0), (100, 2), (100, 3), (160, 2))):
        out.append(Inst(ob="O3", name="kmeans_best_n%d" % n + ("_r%d" % rounds if rounds else ""), harness="c16_kmeans.c",
                        defs=dict({"VK_N": n, "NOHAVE_AVX2": None}, **({"VK_ROUNDS": rounds} if rounds else {})), srcs=[], models=["models/vin.c", "models/msg.c", "models/stopwatch_stub.c"],
                        gi_args=["--replace-calls", "split2:vk_split2", "--replace-calls", "d_estimation:vk_d_estimation", "--replace-calls", "upgma:vk_upgma", "--replace-calls", "free_2d_array_float:vk_free_2d"],
                        unwind_pat=([("bisecting_kmeans", r"i < tries;\s*i \+= 4", rounds + 2)] if rounds else []),
                        flags=["--memory-leak-check"], leak_check=True, replay="solver", unwind=max(n + 2, 45), nb=1, nf=40, timeout=900, mem_gb=8, solver="cadical",
                        funcs=["bisecting_kmeans", "alloc_kmeans_result", "free_kmeans_results", "alloc_node"],
                        bound=("%d samples, up to 40 restarts with arbitrary finite scores; split / distance / UPGMA replaced by stand-ins" % n) +
                        ("; only runs whose keep-the-best loop ends within %d rounds of four restarts (later rounds cut by assume)" % rounds if rounds else ""),
                        desc="k-means driver keeps the best split and releases every other result", cost=60))
    # O1: --nondet-static twins of unit harnesses (a cache / static scratch buffer added to these units would be visible)
    from vk.props import C09, C11, C10
    twins = [i for i in C09.instances("quick") if i.name in ("param_dna_t0", "param_prot_t3")]
    twins += [i for i in C11.instances("quick") if i.name in ("m1_n3_m2", "m2_n3_m2", "m3_n3_m2", "m4_n3_m2")]
    twins += [i for i in C10.instances("quick") if i.name.startswith("weave_a2_b1_pla3")]
    from vk.props import C17
    for i in C17.instances("quick"):
        if i.name == "score_ns2_12_w2_3":   # kalign_msa_compare's counters live in fresh heap memory: nondeterministic under CBMC unless initialised
            out.append(dataclasses.replace(i, ob="O2", name="heap_" + i.name, desc="result of a compare call does not depend on what the heap held before; " + i.desc))
    for i in twins:
        out.append(dataclasses.replace(i, ob="O1", name="nds_" + i.name, flags=list(i.flags) + ["--nondet-static"],
                                       desc="--nondet-static twin: every static-storage object starts arbitrary; " + i.desc))
    return out
