"""C04 - the result depends only on names and residues, not on how they are presented."""
from vk.core import Inst

META = {
    "stubs": ["kalign_run's stages are recorders answering OK/FAIL arbitrarily (orchestration harness)", "reader harnesses: see C05"],
    "outside": ["main()'s stdin / isatty plumbing and real files", "format sniffing on arbitrary files beyond the tape bound", "MSF/Clustal files other than the shapes listed in C05/C06"],
    "assumptions": ["stage functions behave as their own checks (C01, C05, C13) establish"],
}

def wrap_instances(ob="O2"):
    return [Inst(ob=ob, name="kalign_run_orchestration", harness="c04_wrap.c", models=["models/vin.c", "models/msg.c"],
                 native_srcs=["lib/src/tldevel.c"], unwind=26, nb=2, ni=3, nf=3, timeout=300, mem_gb=4,
                 funcs=["kalign_run"], bound="complete: any status, kind, thread count, type, penalties; any single stage failing",
                 desc="kalign_run stage order, de-alignment, argument plumbing, release of parameters/tasks")]

def instances(tier):
    import dataclasses
    from vk.props.shared import MK_MSA_UNWIND
    out = wrap_instances()
    for ns, lm in ([(2, 2), (3, 2)] if tier == "quick" else [(2, 1), (2, 2), (2, 3), (3, 2), (3, 3), (4, 2)]):
        out.append(Inst(ob="O2", name="dealign_ns%d_l%d" % (ns, lm), harness="c04_dealign.c", defs={"VK_NS": ns, "VK_LMAX": lm},
                        srcs=["lib/src/msa_op.c", "lib/src/alphabet.c"], models=["models/vin.c", "models/msg.c", "models/msa_stub.c", "models/ctype.c", "models/log_stub.c"],
                        native_srcs=["lib/src/tldevel.c", "lib/src/msa_alloc.c"], unwind=max(ns, lm) + 3, unwind_pat=MK_MSA_UNWIND,
                        nb=ns * (2 * lm + 3), timeout=300, mem_gb=4, funcs=["detect_aligned", "dealign_msa"],
                        bound="%d sequences, lengths 0..%d, gap counts 0..3, all symbolic" % (ns, lm), desc="status classification and de-alignment"))
    for nfix, nsym in ([(50, 2)] if tier == "quick" else [(50, 2), (63, 2), (100, 1)]):
        ns, lm = nfix + nsym, 2
        out.append(Inst(ob="O2", name="dealign_fix%d_sym%d" % (nfix, nsym), harness="c04_dealign.c", defs={"VK_NS": ns, "VK_LMAX": lm, "VK_NFIX": nfix},
                        srcs=["lib/src/msa_op.c", "lib/src/alphabet.c"], models=["models/vin.c", "models/msg.c", "models/msa_stub.c", "models/ctype.c", "models/log_stub.c"],
                        native_srcs=["lib/src/tldevel.c", "lib/src/msa_alloc.c"], unwind=ns + 3, unwind_pat=MK_MSA_UNWIND, flags=["--object-bits", "11", "--max-field-sensitivity-array-size", "256"],   # > 64 records: keep the record table element-wise
                        nb=ns * (2 * lm + 3), timeout=300, mem_gb=4, funcs=["detect_aligned", "dealign_msa"],
                        bound="%d concrete gap-free records followed by %d symbolic ones (lengths 0..%d, gap counts 0..3)" % (nfix, nsym, lm), desc="status classification looks at every record"))
    for nd, ns in ([(1, 1), (2, 1)] if tier == "quick" else [(1, 1), (2, 1), (1, 2), (2, 2)]):
        out.append(Inst(ob="O4", name="merge_%d_%d" % (nd, ns), harness="c04_merge.c", defs={"VK_ND": nd, "VK_NSRC": ns, "VK_MSA_CAP": nd + ns + 1, "VK_SEQ_CAP": 4},
                        srcs=["lib/src/msa_op.c", "lib/src/alphabet.c"], models=["models/vin.c", "models/msg.c", "models/msa_alloc_model.c", "models/ctype.c", "models/log_stub.c", "models/snprintf_model.c"],
                        native_srcs=["lib/src/tldevel.c", "lib/src/msa_alloc.c"], gi_args=["--replace-calls", "detect_alphabet:vk_detect_alphabet"],
                        unwind=max(2 * (nd + ns) + 3, 8), unwind_pat=[("alloc_msa", r"i < 128", 129), ("main", r"c < 128", 129), ("merge_msa", r"i < 128", 129), ("alloc_msa_seq", r"VK_SEQ_CAP", 7), ("aln_unknown_warning_message_gaps_but_len_diff", r"i < 128", 129)],
                        nb=(nd + ns) * 9 + 8, ni=3, timeout=300, mem_gb=6, funcs=["merge_msa", "detect_aligned", "set_sip_nsip", "free_msa_seq", "kalign_free_msa"],
                        flags=["--memory-leak-check"], leak_check=True,
                        bound="%d + %d records (lengths 0..3), symbolic contents, kinds and statuses" % (nd, ns), desc="records of several inputs are concatenated in order"))
    # O1: reader post-conditions (only letters are stored, everything else is at most a gap count) - shared with C05
    from vk.props.C05 import read_inst
    out.append(dataclasses.replace(read_inst(1, 3, 2, 0, timeout=1500), ob="O1", name="reader_fasta_l3x2"))
    return out
