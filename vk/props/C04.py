"""C04 - the result depends only on names and residues, not on how they are presented."""
from vk.core import Inst

META = {
    "stubs": ["kalign_run's stages are recorders answering OK/FAIL arbitrarily (orchestration harness)", "reader harnesses: see C05"],
    "outside": ["main()'s stdin / isatty plumbing and real files", "format sniffing on arbitrary files beyond the tape bound", "MSF/Clustal files other than the shapes listed in C05/C06"],
    "assumptions": ["stage functions behave as their own checks (C01, C05, C13) establish"],
}

def wrap_instances(ob="O2"):
    return [Inst(ob=ob, name="kalign_run_orchestration", harness="c04_wrap.c", models=["models/vin.c", "models/msg.c"],
                 native_srcs=["lib/src/tldevel.c"], unwind=26, nb=2, ni=3, nf=3, timeout=300, mem_gb=4,
                 funcs=["kalign_run"], bound="complete: any status, kind, thread count, type, penalties; any single stage failing",
                 desc="kalign_run stage order, de-alignment, argument plumbing, release of parameters/tasks")]

def instances(tier):
    return wrap_instances()
