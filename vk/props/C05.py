"""C05 - no memory error, crash or hang on any input; failures are reported as failures."""
from vk.core import Inst
from vk.props.C15 import IO_MODELS, IO_SRCS, IO_NATIVE
from vk.props.C14 import alpha_instances

META = {
    "stubs": ["input = the in_buffer the real read_file_stdin builds (lines cut at the first control character), with concrete line count/lengths and symbolic bytes",
              "msa allocation model with small capacities (resize = model limit), ctype tables of the real libc, strstr/strnlen models, empty message functions"],
    "outside": ["getopt_long_only, real file descriptors", "inputs larger than the listed line tuples (e.g. >512 rows per MSF block, lines > 4 bytes)",
                "stack exhaustion, OpenMP runtime", "allocation failure except in the dedicated error-path instances"],
    "assumptions": ["malloc does not fail unless stated", "input bytes inside a line are not control characters (guaranteed by read_file_stdin)"],
}

def read_inst(rd, lines, ll, shortmask=0, ob="O1", **kw):
    total = lines * ll
    d = {"VK_RD": rd, "VK_LINES": lines, "VK_LL": ll, "VK_SHORTMASK": shortmask, "VK_MSA_CAP": lines + 1, "VK_SEQ_CAP": total + 2,
         "VK_STR_MAX": max(ll + 2, 30), "VK_OUT_LINES": 2, "VK_OUT_W": 8}
    return Inst(ob=ob, name="read_rd%d_l%dx%d_s%x" % (rd, lines, ll, shortmask), harness="c05_read.c", defs=d,
                srcs=IO_SRCS, models=IO_MODELS, native_srcs=IO_NATIVE,
                unwind=max(total + 4, 34, lines + 3), unwind_pat=[("alloc_msa", r"i < 128", 129), ("main", r"c < 128", 129), ("detect_alphabet", r"i < 128", 129),
                            ("null_terminate_sequences", r"i < msa->numseq", lines + 3), ("detect_aligned", r"i < n;", lines + 3),
                            ("detect_aligned", r"j <= msa->sequences", total + 4)],
                solver="cadical", nb=total, timeout=kw.pop("timeout", 1500), mem_gb=kw.pop("mem_gb", 8),
                funcs=["detect_alignment_format", "read_fasta", "read_msf", "read_clu", "null_terminate_sequences", "detect_aligned"],
                cost=total, bound="%d lines x %d bytes (short mask 0x%x), reader %s; every byte symbolic (32..255 except DEL)" %
                (lines, ll, shortmask, {0: "auto-detected", 1: "fasta", 2: "msf", 3: "clustal"}[rd]),
                desc="reader on arbitrary bytes: memory safety + post-conditions", **kw)

def hole_inst(tpl, hole, ll, **kw):
    """well-formed MSF / Clustal text with ONE line replaced by ll arbitrary bytes"""
    lines = {2: 12, 3: 9}[tpl]
    i = read_inst(tpl, lines, ll, 0, **kw)
    i.name = "hole_%s_line%d_l%d" % ({2: "msf", 3: "clu"}[tpl], hole, ll)
    i.defs = dict(i.defs, VK_TPL=tpl, VK_HOLE=hole, VK_MSA_CAP=4, VK_SEQ_CAP=ll + 12, VK_STR_MAX=50)
    i.unwind = max(ll + 16, 52)
    i.nb = ll
    i.cost = ll * 4
    i.bound = "well-formed %s text of %d lines with line %d replaced by %d arbitrary bytes (32..255 except DEL)" % ({2: "MSF", 3: "Clustal"}[tpl], lines, hole, ll)
    i.desc = "reader on structured text with one damaged line: memory safety + post-conditions"
    return i


def instances(tier):
    out = []
    if tier == "quick":
        # Clustal / MSF / auto-detected readers did not finish at 3x3 within 1500 s / 8 GB (cadical): thorough tier only
        tup = [(1, 3, 2, 0)]
    else:
        # first complete thorough run: FASTA 3x3 / 4x3 / 5x2, Clustal 3x3, MSF 3x3 and auto-detected 3x2 on fully arbitrary bytes gave no verdict in 3600 s / 14 GB - dropped
        tup = [(1, 2, 2, 0), (1, 3, 2, 0), (1, 4, 2, 0b0101), (3, 2, 3, 0)]
    for rd, lines, ll, sm in tup:
        out.append(read_inst(rd, lines, ll, sm, timeout=1500 if tier == "quick" else 3600, mem_gb=8 if tier == "quick" else 14))
    # structured text with one damaged line.  Decided: a damaged body line (3-4 bytes) and a damaged Clustal header; a damaged
    # MSF header line ("//", Name:) makes the number of header lines symbolic and with it every later line pointer: symex
    # does not finish in 300 s (thorough-tier attempts with a long cap).
    holes = [(2, 10, 4), (3, 3, 3), (3, 0, 6), (3, 7, 3)] if tier == "quick" else \
            [(2, 10, 4), (2, 9, 3), (3, 3, 3), (3, 3, 4), (3, 0, 6), (3, 0, 12), (3, 6, 4), (3, 7, 3), (3, 4, 4)]   # damaged MSF header lines (Name:, //) and the auto-detected reader: no verdict in 2400 s, dropped
    for tpl, hole, ll in holes:
        out.append(hole_inst(tpl, hole, ll, timeout=600 if tier == "quick" else 2400, mem_gb=8 if tier == "quick" else 16))
    for lines, ll in ([(2, 3)] if tier == "quick" else [(1, 1), (2, 3), (3, 2), (3, 4)]):
        out.append(Inst(ob="O1", name="stdin_l%dx%d" % (lines, ll), harness="c05_stdin.c",
                        defs={"VK_LINES": lines, "VK_LL": ll, "VK_MSA_CAP": 2, "VK_SEQ_CAP": 4, "VK_STR_MAX": 30, "VK_OUT_LINES": 2, "VK_OUT_W": 8},
                        srcs=IO_SRCS, models=IO_MODELS, native_srcs=IO_NATIVE, gi_args=["--replace-calls", "alloc_in_buffer:vk_alloc_in_buffer"],
                        unwind=max(lines + 4, ll + 3), nb=lines * ll, timeout=300, mem_gb=6, flags=["--memory-leak-check"],
                        funcs=["read_file_stdin", "free_in_buffer"], cost=lines * ll,
                        bound="%d input lines of %d arbitrary non-NUL bytes" % (lines, ll), desc="raw input stage: lines cut at the first control character"))
    out += alpha_instances(tier, ob="O2", prefix="alpha")
    # O3 array API and O4 object life cycles (shared with C16), O6 command-line glue (shared with C09)
    import dataclasses
    from vk.props import C16, C09
    for i in C16.instances(tier):
        if i.name.startswith(("life_", "arr_twice")):
            out.append(dataclasses.replace(i, ob="O4" if i.name.startswith("life_") else "O3"))
    for i in C09.instances(tier):
        if i.ob in ("O2", "O3"):
            out.append(dataclasses.replace(i, ob="O6"))
    return out
