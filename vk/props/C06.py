"""C06 - alignments survive a write/read round trip in every format."""
from vk.core import Inst
from vk.props.shared import MK_MSA_UNWIND
from vk.props.C15 import IO_MODELS, IO_SRCS, IO_NATIVE

META = {
    "stubs": ["fopen/fprintf/fclose -> in-memory line tape, fed back to the readers as the in_buffer the real read_file_stdin would build",
              "alloc_line_buffer stand-in (goto-instrument --replace-calls), msa allocation model with small capacities",
              "qsort model, ctype tables, strstr/strnlen models, snprintf text model"],
    "outside": ["names longer than 3 characters (1..200 claimed by the property: only lengths 1-3 are decided)", "MSF with a symbolic molecule kind (each kind is its own instance)", "widths other than the listed ones",
                "cross-format conversion = composition of two single-format instances (not re-run)", "real files (read_file_stdin is checked in C05)"],
    "assumptions": ["rows consist of letters and '-' and contain at least one residue"],
}

def rt_inst(fmt, ns, aln, nls, sym_names=False, win=None, kind=None, prefix_names=False, long_names=False, **kw):
    nblocks = (aln + 59) // 60
    lb_lines = 10 + ns + nblocks * (ns + 1) + 2
    out_lines = lb_lines + nblocks + 4 + ns * (nblocks + 1)
    w = max(48, min(aln, 60) + max(nls) + 8, (max(nls) + 44) if fmt == 2 else 0)
    d = {"VK_FMT": fmt, "VK_NS": ns, "VK_ALN": aln, "VK_NL1": nls[0], "VK_NL2": nls[1], "VK_LB_LINES": lb_lines,
         "VK_OUT_LINES": out_lines, "VK_OUT_W": w, "VK_QSORT_MAX": lb_lines, "VK_MAXROWS": ns,
         "VK_STR_MAX": w + 2, "VK_NAME_CAP": 8, "VK_MSA_CAP": ns + 1, "VK_SEQ_CAP": aln + 2}
    if ns > 2:
        d["VK_NL3"] = nls[2]
    if sym_names:
        d["VK_SYM_NAMES"] = None
    if kind is not None:
        d["VK_KIND"] = kind
    if prefix_names:
        d["VK_PREFIX_NAMES"] = None
    if long_names:
        d.update({"VK_LONG_NAMES": None, "VK_NLMAX": max(nls), "VK_NAME_CAP": 256})
        kw.setdefault("flags", ["--max-field-sensitivity-array-size", "600"])
    if win:
        d["VK_WIN_LO"], d["VK_WIN_HI"] = win
    fname = {1: "fasta", 2: "msf", 3: "clu"}[fmt]
    return Inst(ob="O1", name="rt_%s_ns%d_aln%d_n%s%s" % (fname, ns, aln, "".join(map(str, nls)), ("_sym" if sym_names else "") + ("_win%d_%d" % win if win else "") + ("" if kind is None else "_k%d" % kind) + ("_pfx" if prefix_names else "")), harness="c06_roundtrip.c",
                defs=d, srcs=IO_SRCS, models=IO_MODELS, native_srcs=IO_NATIVE,
                gi_args=["--replace-calls", "alloc_line_buffer:vk_alloc_line_buffer"],
                flags=kw.pop("flags", ["--max-field-sensitivity-array-size", "256"]),
                unwind=max(aln + 6, 2 * out_lines + 2, w + 4, 102), unwind_pat=MK_MSA_UNWIND + [("alloc_msa", r"i < 128", 129)],
                solver=("cadical" if fmt == 2 else "minisat"), nb=2 + ns * (aln + 3), timeout=kw.pop("timeout", 600), mem_gb=kw.pop("mem_gb", 8),
                funcs=["kalign_write_msa", "detect_alignment_format", {1: "write_msa_fasta", 2: "write_msa_msf", 3: "write_msa_clu"}[fmt],
                       {1: "read_fasta", 2: "read_msf", 3: "read_clu"}[fmt], "null_terminate_sequences"],
                cost=ns * aln * (3 if fmt == 2 else 1),
                bound="%s, %d rows x %d columns, name lengths %s%s; %s" % (fname, ns, aln, nls[:ns], " (name characters symbolic)" if sym_names else (" (names A/AB/ABC: proper prefixes of each other)" if prefix_names else ""),
                      ("columns %d..%d symbolic, other columns a fixed backdrop (partially symbolic instance)" % (win[0], win[1] - 1)) if win else "all row characters symbolic"),
                desc="write -> tape -> detect -> read back", **kw)

def instances(tier):
    out = []
    if tier == "quick":
        tup = [(1, 2, 3), (1, 3, 4), (3, 2, 3), (3, 3, 4), (1, 2, 59), (1, 2, 61), (3, 2, 60), (3, 2, 61), (2, 2, 3), (2, 3, 4), (2, 2, 61), (1, 2, 7)]
    else:
        tup = [(f, ns, a) for f in (1, 2, 3) for ns in (2, 3) for a in (1, 2, 3, 4, 5)] + [(f, 2, a) for f in (1, 2, 3) for a in (59, 60, 61, 120)] + [(f, 2, a) for f in (1, 3) for a in (7, 8)]
    for fmt, ns, aln in tup:
        win = (56, min(aln, 63)) if aln >= 59 else None
        if aln >= 119:
            win = (117, min(aln, 123))
        for kind in ((0, 1) if fmt == 2 else (None,)):
            out.append(rt_inst(fmt, ns, aln, (1, 2, 3) if ns == 3 else (2, 1, 1), win=win, kind=kind))
    # names that are proper prefixes of each other, shorter first and longer first (readers that match rows by name)
    for fmt in (1, 2, 3):
        for nls in ((1, 2, 1), (2, 1, 1)) + (((1, 2, 3), (3, 2, 1)) if tier != "quick" else ()):
            ns = 3 if nls[2] == 3 or nls[0] == 3 else 2
            out.append(rt_inst(fmt, ns, 2, nls, prefix_names=True, kind=(1 if fmt == 2 else None)))
    # long names (the property claims 1..200 characters): concrete characters, one name of 130 / 200 characters
    for fmt, nl in ([(3, 130), (2, 130)] if tier == "quick" else [(1, 200), (3, 130), (3, 200), (2, 130), (2, 200), (3, 127), (3, 128)]):
        out.append(rt_inst(fmt, 2, 2, (nl, 1, 1), long_names=True, kind=(1 if fmt == 2 else None), timeout=900))
    # FASTA with SYMBOLIC name characters from [A-Za-z0-9_.|-] (Clustal with symbolic names runs out of 8 GB: the layout becomes symbolic)
    out.append(rt_inst(1, 2, 2, (2, 1, 1), sym_names=True))
    if tier != "quick":
        out.append(rt_inst(1, 3, 3, (1, 2, 3), sym_names=True))
        out.append(rt_inst(1, 2, 4, (3, 3, 1), sym_names=True))
    return out
