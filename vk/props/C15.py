"""C15 - written alignment files are self-consistent and correctly labelled."""
from vk.core import Inst
from vk.props.shared import MK_MSA_UNWIND

IO_MODELS = ["models/vin.c", "models/msg.c", "models/qsort.c", "models/ctype.c", "models/str.c",
             "models/msa_alloc_model.c", "models/stopwatch_stub.c"]
IO_SRCS = ["lib/src/msa_op.c", "lib/src/alphabet.c", "lib/src/msa_misc.c", "lib/src/tlmisc.c"]
IO_NATIVE = ["lib/src/tldevel.c", "lib/src/msa_alloc.c", "lib/src/esl_stopwatch.c"]

META = {
    "stubs": ["fopen/fprintf/fclose -> in-memory line tape; snprintf renders text and records the integer arguments (digit rendering trusted to libc)",
              "alloc_line_buffer replaced (goto-instrument --replace-calls) by a stand-in with the same fields and fewer lines",
              "time/localtime_r/strftime: fixed non-failing answers", "qsort model, ctype tables, strstr model, msa allocation model"],
    "outside": ["real file descriptors and unwritable paths", "names longer than 3 bytes (buffer sizing for long names: thorough-tier instance with concrete rows)",
                "widths other than the listed ones"],
    "assumptions": ["the alignment is FINAL with rows of alnlen characters (C01-O4 establishes that)", "rows consist of letters and '-'"],
}

def write_inst(fmt, ns, aln, nls, tier_ob="O1", **kw):
    nblocks = (aln + 59) // 60
    lb_lines = 10 + ns + nblocks * (ns + 1) + 2
    out_lines = lb_lines + nblocks + 4 + ns * (nblocks + 1)
    d = {"VK_FMT": fmt, "VK_NS": ns, "VK_ALN": aln, "VK_NL1": nls[0], "VK_NL2": nls[1], "VK_LB_LINES": lb_lines,
         "VK_OUT_LINES": out_lines, "VK_OUT_W": max(48, min(aln, 60) + max(nls) + 8), "VK_QSORT_MAX": lb_lines, "VK_MAXROWS": ns,
         "VK_STR_MAX": 48, "VK_NAME_CAP": 8, "VK_MSA_CAP": ns, "VK_SEQ_CAP": aln + 2}
    if ns > 2:
        d["VK_NL3"] = nls[2]
    win = None
    if fmt == 2 and aln >= 59:
        win = (aln - 5, aln) if aln % 60 in (59, 0, 1) and aln < 100 else (56, 62)
        d["VK_WIN_LO"], d["VK_WIN_HI"] = win
    fname = {1: "fasta", 2: "msf", 3: "clu"}[fmt]
    return Inst(ob={1: "O1", 2: "O3", 3: "O2"}[fmt], name="write_%s_ns%d_aln%d_n%s" % (fname, ns, aln, "".join(map(str, nls))), harness="c15_write.c",
                defs=d, srcs=IO_SRCS, models=IO_MODELS, native_srcs=IO_NATIVE,
                gi_args=["--replace-calls", "alloc_line_buffer:vk_alloc_line_buffer"],
                unwind=max(aln + 3, 70, lb_lines + 2, out_lines + 2, d["VK_OUT_W"] + 2), unwind_pat=MK_MSA_UNWIND,
                solver=("cadical" if fmt == 2 else "minisat"), nb=2 + ns * (aln + 3), timeout=kw.pop("timeout", 300), mem_gb=kw.pop("mem_gb", 6),
                funcs={1: ["kalign_write_msa", "write_msa_fasta"], 2: ["kalign_write_msa", "write_msa_msf", "GCGchecksum", "GCGMultchecksum", "sort_out_lines", "free_line_buffer"],
                       3: ["kalign_write_msa", "write_msa_clu", "sort_out_lines", "free_line_buffer"]}[fmt],
                cost=ns * aln * (3 if fmt == 2 else 1),
                bound="%s, %d rows x %d columns, name lengths %s; %s, molecule kind symbolic" % (fname, ns, aln, nls[:ns],
                      ("columns %d..%d symbolic over a fixed backdrop (partially symbolic instance)" % (win[0], win[1] - 1)) if win else "all row characters symbolic"),
                desc="writer output parsed by an independent reader", **kw)

def instances(tier):
    out = []
    if tier == "quick":
        widths = {1: [(2, 1), (3, 4), (2, 59), (2, 60), (2, 61)], 2: [(2, 1), (2, 3), (3, 4), (2, 60), (2, 61)], 3: [(2, 2), (3, 4), (2, 60), (2, 61)]}
    else:
        widths = {1: [(ns, a) for ns in (2, 3) for a in (1, 2, 3, 4, 5, 59, 60, 61, 120, 121)],
                  2: [(ns, a) for ns in (2, 3) for a in (1, 2, 3, 4, 5, 6)] + [(2, 59), (2, 60), (2, 61), (3, 61), (2, 121)],
                  3: [(ns, a) for ns in (2, 3) for a in (1, 2, 3, 4, 5, 59, 60, 61, 120, 121)]}
    for fmt in (1, 2, 3):
        for ns, aln in widths[fmt]:
            out.append(write_inst(fmt, ns, aln, (1, 2, 3) if ns == 3 else (2, 1, 1)))
    # MSF header line at the edge of its 256-byte buffer (needed length = size-1, size, size+1)
    for delta in (-1, 0, 1):
        i = write_inst(2, 2, 3, (2, 1, 1))
        i.name += "_trunc%+d" % delta
        i.defs = dict(i.defs, VK_TRUNC_DELTA=delta)
        i.bound += "; header line needing buffer size %+d characters" % delta
        out.append(i)
    return out
