"""vk.core - driver for solver-based (CBMC / SMT) checks of kalign.

Every verdict produced here is the answer of a SAT/SMT solver to a bounded
symbolic encoding that is regenerated from /repo's *current* sources on every
run (goto-cc compiles the real translation units; nothing is cached across
source changes).  See /verif/DESIGN.md.
"""
import concurrent.futures as cf
import dataclasses
import hashlib
import json
import os
import re
import shlex
import shutil
import subprocess
import sys
import threading
import time
from dataclasses import dataclass, field

VERIF = os.path.dirname(os.path.dirname(os.path.abspath(__file__)))
REPO = os.environ.get("VK_REPO", "/repo")
BUILD = os.environ.get("VK_BUILD", os.path.join(VERIF, "build"))
HARNESS = os.path.join(VERIF, "harness")
EVIDENCE = os.environ.get("VK_EVIDENCE", os.path.join(VERIF, "evidence"))
REPLAYS = os.environ.get("VK_REPLAYS", os.path.join(VERIF, "replays"))
KF_FILE = os.path.join(VERIF, "known_findings.json")

GUARD = "KALIGN_VERIF"
BASE_DEFS = ['KALIGN_PACKAGE_VERSION="3.4.1"', 'KALIGN_PACKAGE_NAME="kalign"', GUARD]
INCS = [os.path.join(REPO, "lib", "src"), os.path.join(REPO, "lib", "include"),
        os.path.join(REPO, "src"), os.path.join(HARNESS, "gen"), HARNESS]

TOTAL_MEM_GB = int(os.environ.get("VK_MEM_GB", "50"))
JOBS = int(os.environ.get("VK_JOBS", "16"))

STD_CHECK_FLAGS = ["--unwinding-assertions", "--drop-unused-functions", "--no-malloc-may-fail",
                   "--pointer-overflow-check"]


def sh(cmd, **kw):
    return subprocess.run(cmd, stdout=subprocess.PIPE, stderr=subprocess.STDOUT, text=True, **kw)


def tree_hash():
    """Hash of every source the encodings are generated from (reported in evidence)."""
    h = hashlib.sha256()
    for d in ("lib/src", "lib/include/kalign", "src"):
        p = os.path.join(REPO, d)
        for fn in sorted(os.listdir(p)):
            if fn.endswith((".c", ".h")):
                h.update(fn.encode())
                with open(os.path.join(p, fn), "rb") as f:
                    h.update(f.read())
    return h.hexdigest()[:16]


@dataclass
class Inst:
    ob: str                     # obligation id within the property, e.g. "O1"
    name: str                   # unique instance name (file-system safe)
    harness: str                # file under /verif/harness
    defs: dict = field(default_factory=dict)
    srcs: list = field(default_factory=list)      # repo-relative TUs linked in (goto-cc and native)
    models: list = field(default_factory=list)    # harness-relative environment models (CBMC only)
    native_srcs: list = None    # extra repo TUs only for the native replay build
    native_models: list = field(default_factory=list)  # harness-relative files for native build
    unwind: int = None
    unwindset: dict = field(default_factory=dict)
    unwind_pat: list = field(default_factory=list)  # [(function, regex on the loop's source line, bound)]
    flags: list = field(default_factory=list)     # extra cbmc flags
    no_flags: list = field(default_factory=list)  # std flags to drop
    cflags: list = field(default_factory=list)    # extra goto-cc flags (e.g. -mavx2, -include x)
    solver: str = "minisat"     # minisat | kissat | cadical
    timeout: int = 300
    mem_gb: int = 4
    witness: str = "inline"     # inline | none
    expect: str = "hold"        # hold | fail (known-finding confirmation instance)
    kf: str = None              # known-finding id confirmed by this instance (expect == fail)
    replay: str = "native"      # native | solver
    termination_loops: bool = False  # unwinding-assertion failures are hang candidates
    desc: str = ""
    funcs: list = field(default_factory=list)     # real functions encoded
    bound: str = ""
    gi_args: list = field(default_factory=list)   # goto-instrument args applied to the linked binary (logged)
    gen_files: list = field(default_factory=list)  # [(filename, callable -> text)] generated into the instance dir (added to -I) before compiling
    pre_link: list = field(default_factory=list)  # [(repo TU list, goto-instrument args)] see build()
    cost: float = 1.0           # scheduling weight (expensive first)
    nb: int = 0
    ni: int = 0
    nf: int = 0
    asan: bool = True
    leak_check: bool = False   # native replay with LeakSanitizer (only harnesses that free everything they build)


class Result:
    def __init__(self, inst):
        self.inst = inst
        self.verdict = None      # holds | violated | undecided | error | kf-confirmed | kf-gone
        self.reason = ""
        self.failed_props = []
        self.steps = 0
        self.vars = 0
        self.clauses = 0
        self.solver_s = 0.0
        self.wall_s = 0.0
        self.rss_mb = 0
        self.nprops = 0
        self.witness_ok = None
        self.replay_path = None
        self.replay_confirmed = None
        self.queries = 0
        self.log = ""

    def to_json(self):
        i = self.inst
        return {"obligation": i.ob, "instance": i.name, "harness": i.harness, "defines": i.defs,
                "functions_encoded": i.funcs, "bound": i.bound, "unwind": i.unwind,
                "unwindset": i.unwindset, "solver": i.solver, "verdict": self.verdict,
                "reason": self.reason, "failed_properties": self.failed_props[:6],
                "program_steps": self.steps, "sat_variables": self.vars, "sat_clauses": self.clauses,
                "properties_checked": self.nprops, "solver_s": round(self.solver_s, 2),
                "wall_s": round(self.wall_s, 2), "peak_rss_mb": self.rss_mb,
                "witness_reached": self.witness_ok, "desc": i.desc}


def _defs_args(defs):
    out = []
    for k, v in defs.items():
        out.append("-D%s" % k if v is None or v is True else "-D%s=%s" % (k, v))
    return out


def inst_dir(prop, inst):
    d = os.path.join(BUILD, prop, inst.name)
    os.makedirs(d, exist_ok=True)
    return d


def compile_goto(prop, inst, extra_defs=None):
    d = inst_dir(prop, inst)
    out = os.path.join(d, "inst.gb")
    defs = dict(inst.defs)
    defs.update({"VK_NB": max(inst.nb, 1), "VK_NI": max(inst.ni, 1), "VK_NF": max(inst.nf, 1)})
    if extra_defs:
        defs.update(extra_defs)
    common = ["-D" + x for x in BASE_DEFS] + _defs_args(defs) + ["-I" + x for x in INCS] + inst.cflags
    log = ""
    if inst.gen_files:
        for fn, fun in inst.gen_files:
            with open(os.path.join(d, fn), "w") as f:
                f.write(fun())
        common.append("-I" + d)
    objs = []
    if inst.pre_link:
        # [(name, [repo TUs], [stub files under harness], [goto-instrument args])]
        for k, (tus, stubs, giargs) in enumerate(inst.pre_link):
            part = os.path.join(d, "pre%d.gb" % k)
            cmd = ["goto-cc", "-o", part] + common + [os.path.join(REPO, t) for t in tus] + \
                  [os.path.join(HARNESS, s) for s in stubs]
            r = sh(cmd)
            log += " ".join(cmd) + "\n" + r.stdout
            if r.returncode != 0:
                return None, log
            part2 = os.path.join(d, "pre%d_i.gb" % k)
            cmd = ["goto-instrument"] + giargs + [part, part2]
            r = sh(cmd)
            log += " ".join(cmd) + "\n" + r.stdout[-2000:]
            if r.returncode != 0:
                return None, log
            objs.append(part2)
    cmd = ["goto-cc", "-o", out] + common + [os.path.join(HARNESS, inst.harness)] + \
          [os.path.join(HARNESS, m) for m in inst.models] + \
          [os.path.join(REPO, s) for s in inst.srcs] + objs
    r = sh(cmd)
    log += " ".join(cmd) + "\n" + r.stdout
    if r.returncode != 0:
        return None, log
    if inst.gi_args:
        out2 = os.path.join(d, "inst_gi.gb")
        cmd = ["goto-instrument"] + inst.gi_args + [out, out2]
        r = sh(cmd)
        log += " ".join(cmd) + "\n" + r.stdout[-3000:]
        if r.returncode != 0:
            return None, log
        out = out2
    return out, log


RE_PROP = re.compile(r"^\[(\S+?)\] (.*): (SUCCESS|FAILURE|UNKNOWN|ERROR)$", re.M)
RE_STEPS = re.compile(r"size of program expression: (\d+) steps")
RE_VARS = re.compile(r"(\d+) variables, (\d+) clauses")
RE_DP = re.compile(r"Runtime decision procedure: ([\d.e+-]+)s")
RE_SYMEX = re.compile(r"Runtime (?:Symex|Convert SSA|Postprocess Equation): ([\d.e+-]+)s")
RE_RSS = re.compile(r"VKRSS (\d+)")
RE_VIN = re.compile(r"^\s*vin\.(b|i|f)(?:\[(\d+)l?\])?=.*\((\{? ?[01 ,]+\}?)\)\s*$", re.M)


def cbmc_cmd(inst, gb, trace=False):
    cmd = ["cbmc", gb, "--verbosity", "9"]
    for f in STD_CHECK_FLAGS:
        if f not in inst.no_flags:
            cmd.append(f)
    cmd += inst.flags
    if inst.unwind is not None:
        cmd += ["--unwind", str(inst.unwind)]
    if inst.unwindset:
        cmd += ["--unwindset", ",".join("%s:%d" % kv for kv in inst.unwindset.items())]
    if inst.solver == "kissat":
        cmd += ["--external-sat-solver", "kissat"]
    elif inst.solver == "cadical":
        cmd += ["--sat-solver", "cadical"]
    if trace:
        cmd += ["--trace"]
    return cmd


def run_limited(cmd, timeout, mem_gb, cwd=None):
    """Run under ulimit -v and timeout; returns (rc, output, wall, rss_mb, timed_out)."""
    inner = ("set -o pipefail; ulimit -v %d; /usr/bin/time -f 'VKRSS %%M' timeout -k 5 %d %s 2>&1 | "
             "grep -v -E '^(Unwinding loop|Not unwinding loop|Unwinding recursion|Not unwinding recursion)'") % (
        int(mem_gb * 1024 * 1024), timeout, " ".join(shlex.quote(c) for c in cmd))
    t0 = time.time()
    r = sh(["bash", "-c", inner], cwd=cwd)
    wall = time.time() - t0
    m = RE_RSS.search(r.stdout)
    rss = int(m.group(1)) // 1024 if m else 0
    return r.returncode, r.stdout, wall, rss, r.returncode in (124, 137)


def parse_cbmc(out, res):
    props = RE_PROP.findall(out)
    res.nprops = len(props)
    m = RE_STEPS.search(out)
    if m:
        res.steps = int(m.group(1))
    vc = RE_VARS.findall(out)
    if vc:
        res.vars, res.clauses = int(vc[-1][0]), int(vc[-1][1])
    res.solver_s += sum(float(x) for x in RE_DP.findall(out))
    res.encode_s = getattr(res, "encode_s", 0.0) + sum(float(x) for x in RE_SYMEX.findall(out))
    res.queries += max(1, len(RE_DP.findall(out)))
    return props


def extract_vin(out):
    vin = {"b": {}, "i": {}, "f": {}}
    def conv(kind, bits):
        v = int(bits.replace(" ", ""), 2)
        return v - (1 << 32) if kind == "i" and v >= 1 << 31 else v
    for kind, idx, bits in RE_VIN.findall(out):
        if idx == "":
            # arrays beyond CBMC's field-sensitivity limit are assigned (and printed) as a whole: vin.b={ .. } ({ bits, bits, .. })
            if "{" not in bits:
                continue
            for j, e in enumerate(bits.strip("{} ").split(",")):
                vin[kind][j] = conv(kind, e)
        elif "{" not in bits:
            vin[kind][int(idx)] = conv(kind, bits)
    return {k: [vin[k].get(j, 0) for j in range((max(vin[k]) + 1) if vin[k] else 0)] for k in vin}


def native_build(prop, inst, extra_defs=None, tag="native"):
    d = inst_dir(prop, inst)
    exe = os.path.join(d, tag)
    defs = dict(inst.defs)
    defs.update({"VK_NB": max(inst.nb, 1), "VK_NI": max(inst.ni, 1), "VK_NF": max(inst.nf, 1),
                 "VK_NATIVE": None})
    if extra_defs:
        defs.update(extra_defs)
    srcs = list(inst.srcs) + list(inst.native_srcs or [])
    cmd = ["gcc", "-std=gnu11", "-g", "-O0", "-w", "-o", exe]
    if inst.asan:
        cmd += ["-fsanitize=address,undefined", "-fno-sanitize-recover=undefined", "-fno-omit-frame-pointer"]
    cmd += ["-D" + x for x in BASE_DEFS] + _defs_args(defs) + ["-I" + x for x in INCS]
    if inst.gen_files:
        for fn, fun in inst.gen_files:
            with open(os.path.join(d, fn), "w") as f:
                f.write(fun())
        cmd.append("-I" + d)
    cmd += [c for c in inst.cflags if not c.startswith("-I" + os.path.join(HARNESS, "shim"))]
    if "HAVE_AVX2" in defs:
        cmd.append("-mavx2")    # native replay of the AVX2 variants uses the real intrinsics (the shim is for CBMC only)
    cmd += [os.path.join(HARNESS, inst.harness), os.path.join(HARNESS, "vk_native.c")]
    cmd += [os.path.join(HARNESS, m) for m in inst.native_models]
    cmd += [os.path.join(REPO, s) for s in srcs] + ["-lm"]
    r = sh(cmd)
    if r.returncode != 0:
        return None, " ".join(cmd) + "\n" + r.stdout
    return exe, ""


def write_vin_txt(path, vin):
    with open(path, "w") as f:
        for k in ("b", "i", "f"):
            for j, v in enumerate(vin.get(k, [])):
                f.write("%s %d %d\n" % (k, j, v))


def native_replay(prop, inst, vin, extra_defs=None):
    """Returns (reproduced: bool|None, text). None = could not build/run."""
    exe, log = native_build(prop, inst, extra_defs)
    if exe is None:
        return None, "native build failed:\n" + log[-3000:]
    vt = os.path.join(inst_dir(prop, inst), "vin.txt")
    write_vin_txt(vt, vin)
    env = dict(os.environ, ASAN_OPTIONS="detect_leaks=%d:abort_on_error=0:exitcode=99" % (1 if getattr(inst, "leak_check", False) else 0),
               UBSAN_OPTIONS="print_stacktrace=1:halt_on_error=1:exitcode=98")
    try:
        r = subprocess.run(["timeout", "-k", "2", "20", exe, vt], stdout=subprocess.PIPE,
                           stderr=subprocess.STDOUT, text=True, env=env, errors="replace")
    except Exception as e:  # pragma: no cover
        return None, "native run failed: %r" % e
    txt = r.stdout[-4000:]
    if r.returncode == 0:
        return False, txt
    if r.returncode == 77:
        return False, "ASSUMPTION not satisfied natively (exit 77)\n" + txt
    return True, "exit=%d\n%s" % (r.returncode, txt)


RE_LOOP = re.compile(r"^Loop (\S+):\n\s+file (\S+) line (\d+) function (\S+)", re.M)


def resolve_unwind_patterns(inst, gb):
    """Loop ids are looked up by source text on every run, so they follow edits of /repo."""
    if not inst.unwind_pat:
        return {}
    out = sh(["cbmc", gb, "--show-loops"]).stdout
    us = {}
    cache = {}
    for lid, fn, line, func in RE_LOOP.findall(out):
        if fn not in cache:
            try:
                cache[fn] = open(fn, errors="replace").read().split("\n")
            except OSError:
                cache[fn] = []
        src = cache[fn][int(line) - 1] if int(line) - 1 < len(cache[fn]) else ""
        for f, rx, bound in inst.unwind_pat:
            if f == func and re.search(rx, src):
                us[lid] = bound
    return us


def is_unwind_prop(name, descr):
    return ".unwind." in name or "unwinding assertion" in descr or "recursion unwinding" in descr


def run_instance(prop, inst, kf_defs=None):
    res = Result(inst)
    t0 = time.time()
    gb, log = compile_goto(prop, inst, kf_defs)
    res.log = log
    if gb is None:
        res.verdict, res.reason = "error", "goto-cc failed: " + log[-1500:]
        res.wall_s = time.time() - t0
        return res
    if inst.unwind_pat:
        inst = dataclasses.replace(inst, unwindset=dict(inst.unwindset, **resolve_unwind_patterns(inst, gb)))
        res.inst = inst
    cmd = cbmc_cmd(inst, gb)
    rc, out, wall, rss, to = run_limited(cmd, inst.timeout, inst.mem_gb)
    res.rss_mb = rss
    d = inst_dir(prop, inst)
    with open(os.path.join(d, "cbmc.log"), "w") as f:
        f.write(" ".join(cmd) + "\n" + out)
    props = parse_cbmc(out, res)
    if to:
        res.verdict, res.reason = "undecided", "timeout after %ds" % inst.timeout
    elif "VERIFICATION SUCCESSFUL" not in out and "VERIFICATION FAILED" not in out:
        oom = "std::bad_alloc" in out or "Out of memory" in out or "out of memory" in out.lower() or rc in (134, 139, -6)
        res.verdict = "undecided" if oom else "error"
        res.reason = ("out of memory (cap %d GB)" % inst.mem_gb) if oom else "cbmc rc=%d: %s" % (rc, out[-1200:])
    else:
        failed = [(n, dsc) for n, dsc, st in props if st == "FAILURE"]
        wit = [x for x in failed if "VK_WITNESS" in x[1]]
        other = [x for x in failed if "VK_WITNESS" not in x[1]]
        if inst.witness == "inline":
            res.witness_ok = bool(wit)
        unw = [x for x in other if is_unwind_prop(*x)]
        real = [x for x in other if not is_unwind_prop(*x)]
        res.failed_props = ["%s: %s" % x for x in real + unw]
        if real or (unw and inst.termination_loops):
            # second query: obtain the counterexample trace (witness assertion compiled out)
            xd = dict(kf_defs or {})
            xd["VK_NO_WITNESS"] = None
            gb2, log2 = compile_goto(prop, dataclasses.replace(inst, name=inst.name + ".trace"), xd)
            rc2, out2, wall2, rss2, to2 = run_limited(cbmc_cmd(inst, gb2, trace=True) + ["--stop-on-fail"],
                                                      inst.timeout, inst.mem_gb)
            with open(os.path.join(d, "cbmc_trace.log"), "w") as f:
                f.write(out2)
            res.queries += 1
            vin = extract_vin(out2)
            res.vin = vin
            res.verdict = "violated"
            vp = re.search(r"Violated property:\n(.*\n.*\n.*)", out2)
            res.reason = (vp.group(1).strip().replace("\n", " | ") if vp else "; ".join(res.failed_props[:3]))
        elif unw:
            res.verdict, res.reason = "undecided", "unwinding bound too small: " + unw[0][0]
        elif inst.witness == "inline" and not wit:
            res.verdict, res.reason = "error", "vacuous: witness assertion not reachable"
        else:
            res.verdict = "holds"
    res.wall_s = time.time() - t0
    return res


class Scheduler:
    """Runs instances in parallel under a global memory budget."""

    def __init__(self, jobs=JOBS, mem=TOTAL_MEM_GB):
        self.jobs, self.mem = jobs, mem
        self.cv = threading.Condition()
        self.used = 0

    def run(self, items, fn):
        items = sorted(items, key=lambda i: -i.cost)
        out = []

        def wrap(it):
            need = min(it.mem_gb, self.mem)
            with self.cv:
                while self.used + need > self.mem:
                    self.cv.wait()
                self.used += need
            try:
                return fn(it)
            finally:
                with self.cv:
                    self.used -= need
                    self.cv.notify_all()

        with cf.ThreadPoolExecutor(max_workers=self.jobs) as ex:
            futs = [ex.submit(wrap, it) for it in items]
            for f in cf.as_completed(futs):
                out.append(f.result())
        return out


def load_known_findings():
    if not os.path.exists(KF_FILE):
        return []
    with open(KF_FILE) as f:
        return json.load(f).get("findings", [])


def open_findings(prop):
    return [k for k in load_known_findings() if k["property"] == prop and k.get("status") == "open"]


def save_replay(prop, inst, vin, res, kf_defs):
    os.makedirs(os.path.join(REPLAYS, prop), exist_ok=True)
    path = os.path.join(REPLAYS, prop, inst.name + ".json")
    rec = {"property": prop, "instance": inst.name, "obligation": inst.ob, "harness": inst.harness,
           "defines": inst.defs, "kf_defines": kf_defs or {}, "vin": vin, "mode": inst.replay,
           "reason": res.reason, "failed_properties": res.failed_props[:6], "tree": tree_hash(),
           "how": "native: the harness is compiled with gcc (+ASan/UBSan) against the real sources with vin "
                  "loaded from this file; solver: cbmc is re-run on this instance"}
    with open(path, "w") as f:
        json.dump(rec, f, indent=1)
    return path


def run_property(prop, tier, instances, meta, seed=0, only=None, extra_reports=None):
    """instances: list[Inst]; meta: dict with keys level_text, stubs, outside, assumptions, rule."""
    t0 = time.time()
    os.makedirs(EVIDENCE, exist_ok=True)
    kfs = open_findings(prop)
    kf_defs = {}
    for k in kfs:
        for dname in k.get("exclude_defines", []):
            kf_defs[dname] = None
    if only:
        instances = [i for i in instances if re.search(only, i.name) or i.ob == only]
    names = [i.name for i in instances]
    assert len(names) == len(set(names)), "duplicate instance names: %r" % [n for n in names if names.count(n) > 1]
    if os.path.isdir(os.path.join(BUILD, prop)):
        shutil.rmtree(os.path.join(BUILD, prop), ignore_errors=True)
    sched = Scheduler()
    results = sched.run(instances, lambda it: run_instance(prop, it, kf_defs if it.expect == "hold" else None))
    results.sort(key=lambda r: r.inst.name)
    violations, kf_lines, undecided, errors = [], [], [], []
    replays = []
    for r in results:
        it = r.inst
        if it.expect == "fail":
            # confirmation instance of a recorded (open) known finding
            if r.verdict == "violated":
                rep, txt = (True, "") if it.replay == "solver" else native_replay(prop, it, r.vin)
                r.replay_confirmed = rep
                r.verdict = "kf-confirmed"
                kf = next((k for k in kfs if k["id"] == it.kf), None)
                if kf is not None:
                    kf_lines.append("KNOWN-FINDING: property=%s %s [%s]" % (prop, kf["what"], kf["id"]))
                else:
                    # the finding is not (or no longer) listed as open: this is a live violation
                    path = save_replay(prop, it, r.vin, r, None)
                    r.replay_path = path
                    r.verdict = "violated"
                    violations.append((it, r, path))
            elif r.verdict == "holds":
                r.verdict = "kf-gone"
            continue
        if r.verdict == "violated":
            path = save_replay(prop, it, r.vin, r, kf_defs)
            r.replay_path = path
            if it.replay == "native":
                rep, txt = native_replay(prop, it, r.vin, kf_defs)
                r.replay_confirmed = rep
                with open(path) as f:
                    rec = json.load(f)
                rec["native_replay"] = {"reproduced": rep, "output": txt[-3000:]}
                with open(path, "w") as f:
                    json.dump(rec, f, indent=1)
            replays.append(path)
            violations.append((it, r, path))
        elif r.verdict == "undecided":
            undecided.append(r)
        elif r.verdict == "error":
            errors.append(r)
    wall = time.time() - t0
    # ---- report
    for r in results:
        print("%-12s %-44s %-13s %6.1fs %5dMB steps=%d vars=%d %s" % (
            r.inst.ob, r.inst.name, r.verdict, r.wall_s, r.rss_mb, r.steps, r.vars,
            ("" if r.verdict in ("holds", "kf-confirmed", "kf-gone") else r.reason[:300])))
    for ln in kf_lines:
        print(ln)
    for it, r, path in violations:
        tag = {True: "native-replay=reproduced", False: "native-replay=NOT-reproduced(solver counterexample stands; see file)",
               None: "native-replay=n/a"}[r.replay_confirmed]
        print("VIOLATION property=%s replay=%s instance=%s %s :: %s" % (prop, path, it.name, tag, r.reason[:300]))
    for r in undecided:
        print("UNDECIDED property=%s instance=%s %s" % (prop, r.inst.name, r.reason[:200]))
    for r in errors:
        print("ERROR property=%s instance=%s %s" % (prop, r.inst.name, r.reason[:600]))
    decided = [r for r in results if r.verdict in ("holds", "violated", "kf-confirmed", "kf-gone")]
    obligations = sorted(set(r.inst.ob for r in results))
    ob_ok = [o for o in obligations if all(r.verdict in ("holds", "kf-confirmed", "kf-gone")
                                           for r in results if r.inst.ob == o)]
    funcs = sorted(set(f for r in results for f in r.inst.funcs))
    samples = [r.to_json() for r in results[:4]] + [r.to_json() for r in results if r.verdict not in ("holds",)][:6]
    ev = {
        "property_id": prop, "tier": tier, "seed": seed, "level": "model_checking",
        "coverage": {
            "evaluations": sum(r.queries for r in results),
            "distinct_nontrivial": len(set(r.inst.name for r in decided if r.steps > 0 or r.inst.replay == "solver")),
            "rule": meta.get("rule", "one case = one (harness, size tuple) instance: the real functions are compiled by goto-cc "
                             "from the current /repo tree, all input contents are symbolic, and a SAT solver decides every "
                             "assertion for all values; an instance counts as distinct/non-trivial when it has its own "
                             "(harness, defines) pair, a non-empty symbolic encoding (program steps > 0) and a verdict"),
            "samples": samples,
            "obligations": len(obligations), "discharged": len(ob_ok),
            "instances": len(results), "instances_holding": sum(1 for r in results if r.verdict == "holds"),
            "instances_undecided": [r.inst.name + ": " + r.reason[:120] for r in undecided],
            "instances_error": [r.inst.name + ": " + r.reason[:200] for r in errors],
            "known_findings_confirmed": kf_lines,
            "witnesses_failed_as_required": sum(1 for r in results if r.witness_ok),
            "witnesses_missing": [r.inst.name for r in results if r.witness_ok is False],
            "functions_encoded": funcs,
            "bounds": sorted(set(r.inst.bound for r in results if r.inst.bound)),
            "stubs": meta.get("stubs", []), "outside": meta.get("outside", []),
            "solver_time_s": round(sum(r.solver_s for r in results), 1),
            "cpu_wall_sum_s": round(sum(r.wall_s for r in results), 1),
            "peak_rss_mb": max([r.rss_mb for r in results] + [0]),
            "sat_variables_total": sum(r.vars for r in results),
            "sat_clauses_total": sum(r.clauses for r in results),
            "program_steps_total": sum(r.steps for r in results),
            "replays": replays, "tree_hash": tree_hash(), "exhaustive": False,
            "all_instances": [{"i": r.inst.name, "v": r.verdict, "s": round(r.wall_s, 1), "steps": r.steps,
                               "vars": r.vars} for r in results],
            "checker_cmd": "cbmc 6.11.0 (MiniSat / kissat / cadical back ends) via ./check %s --tier %s" % (prop, tier),
        },
        "assumptions": meta.get("assumptions", []),
        "wall_s": round(wall, 1),
        "violations": len(violations),
    }
    if extra_reports:
        ev["coverage"].update(extra_reports)
    # a run restricted with --only is a development aid: it must not replace the property's evidence record
    ev_path = os.path.join(EVIDENCE, prop + ".json") if not only else os.path.join(BUILD, prop + ".partial-evidence.json")
    with open(ev_path, "w") as f:
        json.dump(ev, f, indent=1)
    print("SUMMARY property=%s tier=%s instances=%d holds=%d violated=%d undecided=%d error=%d wall=%.0fs" % (
        prop, tier, len(results), sum(1 for r in results if r.verdict == "holds"), len(violations),
        len(undecided), len(errors), wall))
    if violations:
        return 1
    if errors:
        return 2
    return 0


def replay_file(path):
    with open(path) as f:
        rec = json.load(f)
    prop = rec["property"]
    import importlib
    mod = importlib.import_module("vk.props." + prop)
    insts = mod.instances("thorough") + mod.instances("quick")
    inst = next((i for i in insts if i.name == rec["instance"]), None)
    if inst is None:
        print("replay: instance %s not found" % rec["instance"])
        return 2
    if rec.get("mode") == "solver":
        r = run_instance(prop, inst, rec.get("kf_defines") or None)
        print("replay(solver): verdict=%s %s" % (r.verdict, r.reason))
        if r.verdict == "violated":
            print("VIOLATION property=%s replay=%s" % (prop, path))
            return 1
        return 0
    rep, txt = native_replay(prop, inst, rec["vin"], rec.get("kf_defines") or None)
    print(txt)
    if rep:
        print("VIOLATION property=%s replay=%s" % (prop, path))
        return 1
    print("replay: not reproduced")
    return 0
