"""Mechanical rewrite of OpenMP task pragmas into the CBMC thread model of harness/vk_omp.h.
The rewritten text is regenerated from /repo's current source on every run and kept next to the instance (diffable)."""
import re


def expand_teams(lines, log):
    """#pragma omp parallel [if(c)] whose block is NOT a single construct: every thread of the team executes the block.
    Modelled with a team of one or two threads (team size is the implementation's choice: 1 without nested parallelism);
    the second member runs a textual copy of the block in its own CBMC thread with its own task frame, and the region
    ends with the implicit barrier."""
    out = []
    i = 0
    team = 0
    while i < len(lines):
        st = lines[i].strip()
        m = re.match(r"#pragma\s+omp\s+parallel\b(?!\s+for)(.*)$", st)
        if m:
            j = i + 1
            single = False
            while j < len(lines) and (lines[j].strip().startswith("#") or not lines[j].strip()):
                if re.match(r"#pragma\s+omp\s+single\b", lines[j].strip()):
                    single = True
                j += 1
            if not single and j < len(lines) and lines[j].strip().startswith("{"):
                mc = re.search(r"\bif\s*\((.*)\)\s*$", m.group(1))
                cond = mc.group(1) if mc else "1"
                depth = 0
                e = j
                while e < len(lines):
                    if not lines[e].strip().startswith("#"):
                        depth += lines[e].count("{") - lines[e].count("}")
                        if depth == 0:
                            break
                    e += 1
                block = lines[j:e + 1]
                team += 1
                log.append("team region %d (if %s): block of %d lines executed by every member of a team of 1 or 2" % (team, cond, len(block)))
                out.append("/* vk: " + st + " (team region: executed by every member) */")
                out.extend(lines[i + 1:j])
                out.append("{ int vk_team2_%d = (%s) && nondet_vk_team(); /* barrier flag is a global: CBMC threads get copies of locals */" % (team, cond))
                out.append("if (vk_team2_%d) { __CPROVER_ASYNC_9%d: { VK_FRAME();" % (team, team))
                out.extend(block)
                out.append("__CPROVER_atomic_begin(); vk_team_done[%d] = 1; __CPROVER_atomic_end(); } }" % team)
                out.extend(block)
                out.append("if (vk_team2_%d) __CPROVER_assume(vk_team_done[%d]); /* implicit barrier */ }" % (team, team))
                i = e + 1
                continue
        out.append(lines[i])
        i += 1
    return out


def rewrite(src_text, frame_functions):
    log = []
    lines = expand_teams(src_text.split("\n"), log)
    out = []
    k = 0
    i = 0
    while i < len(lines):
        ln = lines[i]
        st = ln.strip()
        if re.match(r"#pragma\s+omp\s+parallel\s*$", st) or re.match(r"#pragma\s+omp\s+single(\s+nowait)?\s*$", st):
            log.append("removed: " + st)
            out.append("/* vk: " + st + " (one initial thread) */")
            i += 1
            continue
        m = re.match(r"#pragma\s+omp\s+task\b(?!wait)(.*)$", st)
        if m:
            cond = "1"
            mc = re.search(r"\bif\s*\((.*)\)\s*$", m.group(1))
            if mc:
                cond = mc.group(1)
            # the task construct applies to the next statement; skip preprocessor lines (#endif) in between
            j = i + 1
            pre = []
            while j < len(lines) and (lines[j].strip().startswith("#") or not lines[j].strip()):
                pre.append(lines[j])
                j += 1
            stmt = []
            depth = 0
            while j < len(lines):
                stmt.append(lines[j])
                depth += lines[j].count("(") - lines[j].count(")")
                if depth <= 0 and lines[j].rstrip().endswith(";"):
                    break
                j += 1
            k += 1
            out.append("/* vk: " + st + " */")
            out.append("VK_SPAWN(%d, %s, %s)" % (k, cond, " ".join(s.strip() for s in stmt)))
            out.append(";")
            out.extend(pre)
            log.append("task %d (if %s): %s" % (k, cond, " ".join(s.strip() for s in stmt)))
            i = j + 1
            continue
        if re.match(r"#pragma\s+omp\s+taskwait\s*$", st):
            out.append("/* vk: " + st + " */")
            out.append("VK_TASKWAIT();")
            log.append("taskwait")
            i += 1
            continue
        if re.match(r"#pragma\s+omp\b", st):
            # never ignore a construct silently: the check reports that it cannot decide this source
            out.append('__CPROVER_assert(0, "model limit: OpenMP construct not modelled by vk/omp.py: %s");' % st.replace('"', "'"))
            log.append("NOT MODELLED: " + st)
            i += 1
            continue
        out.append(ln)
        i += 1
    text = "\n".join(out)
    # CBMC aborts ("pointer handling for concurrency is unsound") on any pointer-typed store into an object that other
    # threads could reach (statics, heap, address-taken locals) once threads exist.  The per-merge DP memory is irrelevant
    # to task ORDERING, so its allocation and initialisation are dropped from the model (the merge recorder gets NULL):
    text, n = re.subn(r"\balloc_aln_mem\(&(\w+),\s*(\w+)\)", r"((void)\2, OK)", text)
    text, n2 = re.subn(r"^(\s*)(ml->\w+ = [^;]*;)", r"\1/* vk: dropped (DP memory is not part of the ordering model): \2 */", text, flags=re.M)
    log.append("alloc_aln_mem(&x, n) dropped: %d; initialisations of the DP memory dropped: %d" % (n, n2))
    for fn in frame_functions:
        pat = re.compile(r"(^[A-Za-z_][\w\s\*]*\b%s\s*\([^;{]*\)\s*\{)" % re.escape(fn), re.M)
        text, n = pat.subn(r"\1\n        VK_FRAME();", text, count=1)
        log.append("frame inserted in %s: %d" % (fn, n))
    return '#include "vk_omp.h"\nint nondet_vk_team(void);\nint vk_team_done[8];\nstruct aln_mem; struct aln_mem *vk_alloc_aln_mem_ret(int x);\n' + text, log
