"""Decision-split exploration of the Hirschberg recursion (C07/C08): see harness/c07_split.c."""
import concurrent.futures as cf
import json
import os
import re
import threading
import time

from vk import core
from vk.core import Inst, REPO, BUILD, HARNESS

TYPES = {"dna": (1, 0), "internal": (1, 1), "rna": (1, 2), "protein": (0, 3), "divergent": (0, 4)}
LIB_SRCS = ["lib/src/aln_param.c", "lib/src/aln_setup.c", "lib/src/aln_seqseq.c", "lib/src/aln_seqprofile.c",
            "lib/src/aln_profileprofile.c", "lib/src/aln_mem.c"]
FUNCS = ["aln_runner_serial", "aln_continue", "aln_seqseq_foward", "aln_seqseq_backward", "aln_seqseq_meetup", "aln_seqprofile_foward", "aln_seqprofile_backward", "aln_seqprofile_meetup",
         "aln_profileprofile_* (thorough attempts)", "make_profile_n", "update_n", "set_gap_penalties_n", "init_alnmem", "aln_param_init"]


def item_c(it):
    return "{%d,%d,%d,%d,%d,%d}" % tuple(it)


def plan_h(steps, known, blocks):
    """steps: list of items; known: list of (outA, outB) for the first len(known) steps; blocks: list of (A,B)."""
    def arr(name, items):
        if not items:
            return "static const struct pitem %s[1] = {{0,0,0,0,0,0}};\n" % name
        return "static const struct pitem %s[%d] = {%s};\n" % (name, len(items), ",".join(item_c(i) for i in items))
    s = "#define VK_NSTEP %d\n#define VK_NKNOWN %d\n#define VK_NBLOCK %d\n" % (len(steps), len(known), len(blocks))
    s += arr("STEP", steps) + arr("OUTA", [k[0] for k in known]) + arr("OUTB", [k[1] for k in known])
    s += arr("BLKA", [b[0] for b in blocks]) + arr("BLKB", [b[1] for b in blocks])
    return s


class Config:
    def __init__(self, prop, tname, la, lb, nlet=4, equal=False, pen=None, solver="minisat", timeout=600, mem_gb=6, kernel=1, ka=1, kb=1):
        self.prop, self.tname, self.la, self.lb, self.nlet, self.equal, self.pen = prop, tname, la, lb, nlet, equal, pen
        self.solver, self.timeout, self.mem_gb = solver, timeout, mem_gb
        self.kernel, self.ka, self.kb = kernel, ka, kb
        self.name = "split_%s%s_%dx%d%s%s" % ({1: "", 2: "sp%d_" % ka, 3: "pp%d%d_" % (ka, kb)}[kernel], tname, la, lb, "_eq" if equal else "", "_pen" if pen else "")
        bt, ty = TYPES[tname]
        self.defs = {"VK_BIOTYPE": bt, "VK_TYPE": ty, "VK_LA": la, "VK_LB": lb, "VK_NLET": nlet, "VK_WL_MAX": 4 * la + 4, "NOHAVE_AVX2": None,
                     "VK_NB": la + lb, "VK_NI": 12, "VK_NF": 1}
        if kernel != 1:
            self.defs.update({"VK_KERNEL": kernel, "VK_KA": ka, "VK_KB": kb})
        if equal:
            self.defs["VK_EQUAL"] = None
        if pen:
            self.defs["VK_GPO"], self.defs["VK_GPE"], self.defs["VK_TGPE"] = ["%sf" % x for x in pen]
        self.dir = os.path.join(BUILD, prop, self.name)
        self.lock = threading.Lock()
        self.lib = None
        self.stats = {"enum_queries": 0, "final_queries": 0, "outcomes": 0, "leaves": 0, "solver_s": 0.0, "steps": 0, "vars": 0, "max_rss_mb": 0}
        self.violations, self.undecided, self.samples = [], [], []
        self.qn = 0

    def common(self):
        return ["-D" + x for x in core.BASE_DEFS] + core._defs_args(self.defs) + ["-I" + x for x in core.INCS]

    def build_lib(self):
        os.makedirs(self.dir, exist_ok=True)
        pre = os.path.join(self.dir, "ctl.gb")
        cmd = ["goto-cc", "-o", pre] + self.common() + [os.path.join(REPO, "lib/src/aln_controller.c"), os.path.join(HARNESS, "c07_push.c")]
        r = core.sh(cmd)
        if r.returncode != 0:
            raise RuntimeError(r.stdout[-2000:])
        pre2 = os.path.join(self.dir, "ctl_i.gb")
        r = core.sh(["goto-instrument", "--replace-calls", "aln_runner_serial:vstub_push", pre, pre2])
        if r.returncode != 0:
            raise RuntimeError(r.stdout[-2000:])
        lib = os.path.join(self.dir, "lib.gb")
        cmd = ["goto-cc", "-o", lib] + self.common() + [os.path.join(REPO, s) for s in LIB_SRCS] + \
              [os.path.join(HARNESS, "models/vin.c"), os.path.join(HARNESS, "models/msg.c"), pre2]
        r = core.sh(cmd)
        if r.returncode != 0:
            raise RuntimeError(r.stdout[-2000:])
        self.lib = lib

    def query(self, steps, known, blocks, mode):
        with self.lock:
            self.qn += 1
            qn = self.qn
        d = os.path.join(self.dir, "q%d" % qn)
        os.makedirs(d, exist_ok=True)
        with open(os.path.join(d, "plan.h"), "w") as f:
            f.write(plan_h(steps, known, blocks))
        gb = os.path.join(d, "q.gb")
        extra = ["-DVK_ENUM", "-DVK_NO_WITNESS"] if mode == "enum" else []
        cmd = ["goto-cc", "-o", gb] + self.common() + extra + ["-I" + d, os.path.join(HARNESS, "c07_split.c"), self.lib]
        r = core.sh(cmd)
        if r.returncode != 0:
            return {"status": "error", "text": r.stdout[-1500:]}
        unw = max(self.lb + 3, 4 * self.la + 6, 25) if self.kernel == 1 else 66
        c = ["cbmc", gb, "--verbosity", "9", "--unwinding-assertions", "--drop-unused-functions", "--no-malloc-may-fail", "--unwind", str(unw)]
        if self.solver == "kissat":
            c += ["--external-sat-solver", "kissat"]
        elif self.solver == "cadical":
            c += ["--sat-solver", "cadical"]
        if mode == "enum":
            c += ["--trace", "--stop-on-fail"]
        rc, out, wall, rss, to = core.run_limited(c, self.timeout, self.mem_gb)
        res = core.Result(Inst(ob="O1", name=self.name, harness="c07_split.c"))
        props = core.parse_cbmc(out, res)
        with self.lock:
            self.stats["solver_s"] += res.solver_s
            self.stats["steps"] += res.steps
            self.stats["vars"] += res.vars
            self.stats["max_rss_mb"] = max(self.stats["max_rss_mb"], rss)
            self.stats["enum_queries" if mode == "enum" else "final_queries"] += 1
        info = {"dir": d, "wall": wall, "steps": res.steps, "vars": res.vars}
        if to:
            return dict(info, status="undecided", text="timeout %ds" % self.timeout)
        if "VERIFICATION SUCCESSFUL" in out:
            return dict(info, status="unsat")
        if "VERIFICATION FAILED" not in out:
            return dict(info, status="undecided", text="cbmc rc=%d %s" % (rc, out[-500:]))
        failed = [(n, dsc) for n, dsc, st in props if st == "FAILURE"]
        if mode == "enum":
            vp = re.search(r"Violated property:\n(.*\n.*\n.*)", out)
            vtxt = vp.group(1) if vp else ""
            if "VK_ENUM" in vtxt:
                vin = core.extract_vin(out)
                vals = {}
                for idx, bits in re.findall(r"^\s*vk_out\[(\d+)l?\]=.*\(([01 ]+)\)\s*$", out, re.M):
                    v = int(bits.replace(" ", ""), 2)
                    vals[int(idx)] = v - (1 << 32) if v >= 1 << 31 else v
                if len(vals) < 12:
                    return dict(info, status="undecided", text="could not read outcome from trace")
                iv = [vals[k] for k in range(12)]
                return dict(info, status="outcome", A=tuple(iv[0:6]), B=tuple(iv[6:12]), vin=vin)
            return dict(info, status="violated", text=vtxt.strip().replace("\n", " | "), vin=core.extract_vin(out))
        wit = [x for x in failed if "VK_WITNESS" in x[1]]
        other = [x for x in failed if "VK_WITNESS" not in x[1]]
        unw_f = [x for x in other if core.is_unwind_prop(*x)]
        real = [x for x in other if not core.is_unwind_prop(*x)]
        if real:
            return dict(info, status="violated", text="; ".join("%s: %s" % x for x in real[:3]), gb=gb, cmd=c)
        if unw_f:
            return dict(info, status="undecided", text="unwinding bound: " + unw_f[0][0])
        if not wit:
            return dict(info, status="vacuous")
        return dict(info, status="holds")


def trivial(it):
    return it[0] >= it[1] or it[2] >= it[3]


def explore(cfg, jobs=8):
    """Returns when the whole decision tree of cfg has been explored."""
    cfg.build_lib()
    root = (0, cfg.la, 0, cfg.lb, 1, 1)
    pending = []          # futures
    ex = cf.ThreadPoolExecutor(max_workers=jobs)
    lock = threading.Lock()

    def node(steps, known, queue):
        """steps/known: processed steps with outcomes; queue: items still to process (in order)."""
        queue = [q for q in queue if not trivial(q)]
        if not queue:
            r = cfg.query(steps, known, [], "final")
            with lock:
                cfg.stats["leaves"] += 1
                if len(cfg.samples) < 3:
                    cfg.samples.append({"leaf_plan": [list(s) for s in steps], "status": r["status"], "steps": r.get("steps"), "vars": r.get("vars"), "wall_s": round(r.get("wall", 0), 1)})
            if r["status"] == "violated":
                with lock:
                    cfg.violations.append({"plan": steps, "known": known, "text": r["text"], "dir": r["dir"], "gb": r.get("gb"), "cmd": r.get("cmd")})
            elif r["status"] not in ("holds", "vacuous"):
                with lock:
                    cfg.undecided.append("final %s: %s" % (r.get("dir"), r.get("text", r["status"])))
            return
        it = queue[0]
        rest = queue[1:]
        steps2 = steps + [it]
        blocks = []
        while True:
            r = cfg.query(steps2, known, blocks, "enum")
            if r["status"] == "outcome":
                out = (r["A"], r["B"])
                if out in blocks:
                    with lock:
                        cfg.undecided.append("enum %s: solver returned an already blocked outcome" % r["dir"])
                    break
                blocks.append(out)
                with lock:
                    cfg.stats["outcomes"] += 1
                    pending.append(ex.submit(node, steps2, known + [out], rest + [out[0], out[1]]))
                continue
            if r["status"] == "unsat":
                break
            if r["status"] == "violated":
                with lock:
                    cfg.violations.append({"plan": steps2, "known": known, "text": r["text"], "dir": r["dir"], "vin": r.get("vin")})
                break
            with lock:
                cfg.undecided.append("enum %s: %s" % (r.get("dir"), r.get("text", r["status"])))
            break

    pending.append(ex.submit(node, [], [], [root]))
    # wait until no more futures
    while True:
        with lock:
            cur = list(pending)
        done = [f for f in cur if f.done()]
        for f in done:
            f.result()
        with lock:
            if all(f.done() for f in pending):
                break
        time.sleep(0.2)
    ex.shutdown()
    return cfg
